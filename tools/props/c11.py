"""C11 — shutdown, close and destruction are safe at every moment."""
import simcommon as S
import gen_sim
from vlib import Case, hx

HARNESS = "sim_driver"
LEAN_MODULES = ["ViaProofs.C11"]
LEMMA_MODULES = ['ViaProofs.ConnLemmas']
REQUIRED_THEOREMS = ['Via.C11_invariant_at_every_point', 'Via.C11_close_releases']
LEVEL = "proof"
LEVEL_TEXT = ("PROOF that the history invariant holds at every point at which shutdown / close / destruction can be issued and after every order of the completions that follow; memory safety of the C++ is observed (ASan, checked iterators, watchdog) on the same histories and on the real http_client's teardown incl. reconnection timers. Known findings C11-KF1/KF2.")
TRUSTED_BASE = S.SIM_TRUSTED
ASSUMPTIONS = S.SIM_ASSUMPTIONS
compare = S.compare

PROP = "C11"

RULE = ("every prefix of generated histories followed by shutdown() / close() / destruction / disconnect() and then the remaining "
        "completions in random order incl. operation_aborted; a dedicated family completes everything after shutdown() and must "
        "end with no retained connection and no pending work; ASan / checked-iterator aborts are outcomes; non-trivial = teardown "
        "with at least one live connection")


def generate(tier, rng):
    cases = S.corpus_cases("C11") + kf_cases()
    quick = tier == "quick"
    for td in ("srv-shutdown", "srv-close", "srv-destroy"):
        cases += S.make_cases("c11-" + td[4:], tier, rng, 150, 5000, teardown=td)
    # complete shutdown: every connection finishes its write, its TLS shutdown and is forgotten
    for i in range(120 if quick else 4000):
        lines, o = gen_sim.history(rng, teardown="", length=rng.range(2, 14))
        lines = [l for l in lines if l != "state"]
        lines.append("srv-shutdown")
        for c in range(4):
            lines += ["wdone c%d" % c] * 5 + ["shutdone c%d ok" % c]
        lines += ["poll", "state"]
        cases.append(Case("c11-full-%d" % i, lines, {"opts": o, "full_shutdown": True, "tags": ["full-shutdown", o["flavour"]]}))
    return cases


def kf_cases():
    import os, json
    root = os.path.dirname(os.path.dirname(os.path.dirname(os.path.abspath(__file__))))
    cases = []
    for f in json.load(open(os.path.join(root, "known_findings.json")))["findings"]:
        if f["property"] != PROP or f.get("status") != "open":
            continue
        txt = open(os.path.join(root, f["witness"])).read()
        lines = [l for l in txt.splitlines() if l and not l.startswith("#") and not l.startswith("case ")]
        opts = {}
        for tok in lines[0].split()[1:]:
            a, b = tok.split("=", 1)
            opts[a] = b
        opts.setdefault("flavour", "tcp")
        opts.setdefault("policy", "sync")
        cases.append(Case("kf-" + f["id"], lines, {"opts": opts, "kf_witness": f["id"], "complete": True, "tags": ["kf-witness"]}))
    return cases


def _load_findings():
    import os, json
    root = os.path.dirname(os.path.dirname(os.path.dirname(os.path.abspath(__file__))))
    return [f for f in json.load(open(os.path.join(root, "known_findings.json")))["findings"] if f["property"] == PROP]


FINDINGS_ALL = _load_findings()


def classify(case, fail, il, findings):
    ids = set(f["id"] for f in findings)
    if "C11-KF1" in ids and case.id == "extra" and fail.startswith("[close-no-disconnected]"):
        return "C11-KF1"
    if "C11-KF1" in ids and case.meta.get("kf_witness") == "C11-KF1":
        return "C11-KF1"
    if "C11-KF2" in ids and case.meta.get("kf") and "abort" in fail and S.aborted(S.cut(case, il)) is None:
        return "C11-KF2"
    return None


def oracle(case, out):
    return S.oracle_c11(case, out)


def nontrivial(case, out):
    return case.id if len(case.lines) > 4 else None


def search(rng, binaries, log):
    from vlib import run_parallel
    cases = generate("thorough", rng)[:4000]
    impl, _ = run_parallel(binaries[HARNESS], cases, "search")
    for c in cases:
        il = impl.get(c.id, [])
        f = oracle(c, il)
        if f and not classify(c, f, il, FINDINGS_ALL):
            return (c, f, il)
    return None


def _extra_checks_base(tier, rng, binaries, log):
    """teardown racing with accepts on real loopback sockets: n clients sit in the listen backlog, the k-th connected
    event posts shutdown()/close(); the loop must run out of work, no connected event may follow, every connected
    connection is disconnected and every client is released"""
    import re
    import subprocess
    import vlib
    res = []
    try:
        binary = binaries.get("net_driver") or vlib.build_harness("net_driver", log)
    except vlib.BuildError as e:
        return [(False, "net_driver does not build against the current tree: " + str(e)[-300:], "build net_driver", {})]
    combos = [(c, at, a) for a in ("shutdown", "close") for c in ((2, 3) if tier == "quick" else (1, 2, 3, 5, 9))
              for at in range(0, min(c, 3) + 1) if at <= c]
    n = 0
    for (c, at, a) in combos:
        args = ["shutrace", "clients=%d" % c, "at=%d" % at, "action=" + a]
        cmdline = "net_driver " + " ".join(args)
        try:
            r = subprocess.run([binary] + args, capture_output=True, text=True, timeout=60)
        except subprocess.TimeoutExpired:
            res.append((False, "net_driver %s hung" % " ".join(args), cmdline, {}))
            continue
        m = re.search(r"^RESULT (.*)$", r.stdout, re.M)
        n += 1
        if not m:
            res.append((False, "abort: net_driver shutrace failed: " + (r.stdout + r.stderr)[-400:], cmdline, {}))
            continue
        kv = dict(x.split("=", 1) for x in m.group(1).split() if "=" in x)
        if kv.get("acted") != "1":
            continue
        if kv.get("loop_returned") != "1":
            res.append((False, "real sockets: the event loop still had outstanding work %s ms after %s() (clients=%d, posted by "
                        "connected event %d)" % (kv.get("loop_ms"), a, c, at), cmdline, {}))
        elif kv.get("connected_after") != "0":
            res.append((False, "real sockets: %s connected event(s) after %s() had closed the server" % (kv.get("connected_after"), a), cmdline, {}))
        elif kv.get("released") != str(c):
            res.append((False, "real sockets: only %s of %d clients were released after %s()" % (kv.get("released"), c, a), cmdline, {}))
        elif kv.get("exceptions") != "0":
            res.append((False, "real sockets: an exception escaped into the event loop during %s()" % a, cmdline, {}))
        elif kv.get("connected") != kv.get("disconnected"):
            tag = "[close-no-disconnected] " if a == "close" and kv.get("disconnected") == "0" else ""
            res.append((False, tag + "real sockets: %s connected but %s disconnected events after %s()" % (
                kv.get("connected"), kv.get("disconnected"), a), cmdline, {}))
    res.append((True, "", "", {"real_socket_teardown_races": n}))
    return res


def extra_checks(tier, rng, binaries, log):
    """+ the REAL http_client (sim_driver client mode): see tools/clientsim.py"""
    import clientsim
    return _extra_checks_base(tier, rng, binaries, log) + S.net_twoshut_checks(tier, binaries, log, ['net_driver', 'net_driver_tls'], PROP) + clientsim.run(tier, rng.fork("client"), binaries, log, ['life', 'abort'])
