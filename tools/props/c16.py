"""C16 — the built-in router dispatches by method and path pattern as documented."""
import itertools
from vlib import Case, hx

HARNESS = "rx_driver"
LEAN_MODULES = ["ViaProofs.C16", "ViaProofs.Trans.RT", "ViaProofs.Trans.URI"]
REQUIRED_THEOREMS = ["Via.C16", "Via.C16_no_throw", "Via.RT_handleRequest", "Via.RT_guard", "Via.RT_searchPath", "Via.RT_hasParameters", "Via.URI_parse"]
LEVEL = "proof"
LEVEL_TEXT = ("PROOF that the router's dispatch equals a 10-line specification matcher for every route table, target and method (refinement), and never throws; the decision chain of handle_request (404 / 405 + Allow / 401 + challenge / handler with the bound parameters), the Route constructor's search_path and has_parameters as translated from the current source (tools/cxx2lean_router.py -> ViaGen/RT) are proved equal to the model (Trans/RT); the request_uri constructor (size_t wrap-around and npos arithmetic as written) is translated too (tools/cxx2lean_uri.py -> ViaGen/URI) and proved equal to the model and exception-free for every string shorter than npos (Trans/URI); find_route, get_route_parameters and add_method are hand-modelled; correspondence exhaustive over small tables plus random larger ones, duplicate registrations, multi-'?' targets.")
RULE = ("route tables over segment alphabet {a,b,:x,:y} (patterns of 1..3 segments, distinct parameter names) with GET/POST "
        "handlers, against every target of 1..4 segments over {a,b,c,empty} with optional query/fragment; every "
        "single-route table exhaustively, two-route tables sampled (exhaustive in thorough), plus random larger tables; "
        "expected outcome from an independent segment-wise matcher; non-trivial = the pattern has a parameter or the "
        "table has 2 routes; distinct = distinct (table, target, method)")
TRUSTED_BASE = ["Lean 4.33 kernel", "axioms: propext, Classical.choice, Quot.sound at most",
                "tools/cxx2lean_router.py (translation of the decision chain of request_router::handle_request; the model is proved equal to it in ViaProofs/Trans/RT; find_route / get_route_parameters are hand-modelled and tied by correspondence only)", "tools/cxx2lean_uri.py (translation of request_uri::request_uri; Trans/URI",
                "rx_driver harness + via_model driver", "std::string / std::map modelled as lists / sorted association lists"]
ASSUMPTIONS = ["route patterns start with '/', ':' occurs only as the first character of a segment, parameter names in one "
               "pattern are distinct and non-empty patterns (the documented usage)",
               "handlers and authenticators are opaque"]
EXHAUSTIVE = {"quick": "all single-route tables x all targets of <= 4 segments",
              "thorough": "all tables of <= 2 routes x all targets of <= 4 segments"}

SEGS = [b"a", b"b", b":x", b":y"]
TSEGS = [b"a", b"b", b"c", b""]


def patterns(maxseg=3):
    res = []
    for n in range(1, maxseg + 1):
        for t in itertools.product(SEGS, repeat=n):
            names = [s for s in t if s.startswith(b":")]
            if len(names) != len(set(names)):
                continue
            res.append(b"/" + b"/".join(t))
    res.append(b"/")
    return res


def targets(maxseg=4):
    res = []
    for n in range(1, maxseg + 1):
        for t in itertools.product(TSEGS, repeat=n):
            res.append(b"/" + b"/".join(t))
    return res


def merged(routes):
    """`add_method` semantics: a path registered again adds its methods to the existing route (which keeps its place in
    the order), and a method registered again for the same path does not replace the first registration"""
    order, byp = [], {}
    for (pat, methods) in routes:
        if pat not in byp:
            byp[pat] = []
            order.append(pat)
        for (m, hid, aid) in methods:
            if not any(mm == m for (mm, _, _) in byp[pat]):
                byp[pat].append((m, hid, aid))
    return [(pat, byp[pat]) for pat in order]


def spec(routes, method, target):
    """independent statement of the documented behaviour"""
    routes = merged(routes)
    cut = len(target)
    for ch in (b"?", b"#"):
        i = target.find(ch)
        if i >= 0:
            cut = min(cut, i)
    psegs = target[:cut].split(b"/")
    for (pat, methods) in routes:
        rsegs = pat.split(b"/")
        if len(rsegs) != len(psegs):
            continue
        ok = True
        binds = {}
        for r, p in zip(rsegs, psegs):
            if r.startswith(b":"):
                binds[r[1:]] = p
            elif r != p:
                ok = False
                break
        if not ok:
            continue
        for (m, hid, aid) in methods:
            if m == method:
                return ("handler", hid, binds, aid)
        return ("405", b", ".join(sorted(m for (m, _, _) in methods)))
    return ("404",)


def table_lines(routes):
    lines = ["rt-new"]
    for (pat, methods) in routes:
        for (m, hid, aid) in methods:
            lines.append("rt-add %s %s %d %d" % (hx(m), hx(pat), hid, aid))
    return lines


def expected_line(routes, method, target, mask):
    r = spec(routes, method, target)
    if r[0] == "404":
        return "404"
    if r[0] == "405":
        return "405 allow=" + hx(r[1])
    _, hid, binds, aid = r
    if aid >= 0 and not ((mask >> aid) & 1):
        return "401 chal=" + hx(b"T%d" % aid)
    ps = ",".join("%s:%s" % (hx(k), hx(binds[k])) for k in sorted(binds)) or "-"
    return "handler H%d %s" % (hid, ps)


def generate(tier, rng):
    pats = patterns()
    tgts = targets()
    decorated = []
    for t in tgts:
        decorated.append(t)
    # a query may itself contain '?' (RFC 3986 3.4) and '/', a fragment may contain '?' and '#'-less text; the path ends at
    # the FIRST '?' or '#'
    extra = [t + suf for t in tgts[:60] for suf in (b"?q=1", b"#f", b"?a/b#c/d", b"#x?y", b"?a?b", b"?x=1?y=2#f", b"??",
                                                    b"?a#b?c", b"?", b"#", b"?/a/b?")]
    tables = []
    # single route tables: GET only, or GET+POST
    for p in pats:
        tables.append([(p, [(b"GET", 1, -1)])])
    # two-route tables
    pairs = [(p, q) for p in pats for q in pats if p != q]
    if tier == "quick":
        rng.shuffle(pairs)
        pairs = pairs[:400]
    for (p, q) in pairs:
        tables.append([(p, [(b"GET", 1, -1)]), (q, [(b"GET", 2, -1), (b"POST", 3, 0)])])
    # documented examples and random larger tables
    tables.append([(b"/hello", [(b"GET", 1, -1)]), (b"/hello/:name", [(b"GET", 2, -1), (b"PUT", 3, -1)])])
    # the same path or the same method registered more than once; a literal route behind a parameterised one that
    # matches the same paths (registration order decides); methods in several orders (the Allow list)
    for _ in range(40 if tier == "quick" else 400):
        p, q = rng.choice(pats), rng.choice(pats)
        ms = [b"GET", b"POST", b"PUT", b"DELETE"]
        rng.shuffle(ms)
        tables.append([(p, [(ms[0], 1, -1)]), (q, [(ms[1], 2, -1)]), (p, [(ms[2], 3, -1), (ms[0], 4, -1)]),
                       (q, [(ms[1], 5, -1), (ms[3], 6, -1)])])
    tables.append([(b"/a/:x", [(b"GET", 1, -1)]), (b"/a/b", [(b"GET", 2, -1)])])
    tables.append([(b"/a/b", [(b"GET", 2, -1)]), (b"/a/:x", [(b"GET", 1, -1)])])
    cases = []
    for ti, routes in enumerate(tables):
        lines = table_lines(routes)
        exp = ["ok"] + [None] * (len(lines) - 1)
        if len(routes) == 1 or tier == "thorough":
            tl = decorated + (extra if ti % 7 == 0 else [])
        else:
            tl = [rng.choice(decorated) for _ in range(40)] + [rng.choice(extra) for _ in range(4)]
            # targets built from the patterns themselves (so that matches are frequent)
            for (pat, _) in routes:
                segs = pat.split(b"/")
                tl.append(b"/".join(rng.choice([b"a", b"b", b"c", b""]) if s.startswith(b":") else s for s in segs))
                tl.append(b"/".join(rng.choice([b"a", b"b"]) if s.startswith(b":") else s for s in segs) + b"/a")
        for t in tl:
            method = rng.choice([b"GET", b"GET", b"POST", b"PUT"])
            mask = rng.below(2)
            lines.append("rt-req %s %s %d" % (hx(method), hx(t), mask))
            exp.append(expected_line(routes, method, t, mask))
        nontriv = len(routes) > 1 or any(b":" in p for (p, _) in routes)
        cases.append(Case("c16-%d" % ti, lines, {"expect": exp, "nontrivial": nontriv}))
    # random larger tables over a richer alphabet
    nrand = 1200 if tier == "quick" else 3000
    segs2 = [b"a", b"b", b"ab", b"hello", b":x", b":y", b":name", b":id"]
    for ri in range(nrand):
        routes = []
        used = set()
        for _ in range(rng.range(1, 5)):
            n = rng.range(1, 5)
            t = []
            names = set()
            for _ in range(n):
                s = rng.choice(segs2)
                if s.startswith(b":"):
                    if s in names:
                        s = b"k"
                    names.add(s)
                t.append(s)
            pat = b"/" + b"/".join(t)
            if pat in used:
                continue
            used.add(pat)
            methods = []
            for m in (b"GET", b"POST", b"PUT", b"DELETE"):
                if rng.chance(1, 2):
                    methods.append((m, rng.range(1, 9), rng.choice([-1, -1, 0, 1])))
            if not methods:
                methods.append((b"GET", 1, -1))
            routes.append((pat, methods))
        lines = table_lines(routes)
        exp = ["ok"] + [None] * (len(lines) - 1)
        for _ in range(30):
            base = rng.choice(routes)[0].split(b"/")
            t = b"/".join(rng.choice([b"a", b"b", b"zz", b"", b"hello"]) if s.startswith(b":") else s for s in base)
            r = rng.below(10)
            if r == 0:
                t = t + b"/extra"
            elif r == 1:
                t = b"/pre" + t
            elif r == 2:
                t = t[:-1] if len(t) > 1 else t
            elif r == 3:
                t = t + b"?x=/a/b"
            elif r == 4:
                t = t + b"#frag"
            elif r == 5:
                # an octet the request line parser accepts in a target but text handling may trip over (NUL, DEL, >= 0x80),
                # before a query / fragment delimiter
                pos = rng.below(len(t) + 1)
                t = t[:pos] + bytes([rng.choice([0, 0, 1, 127, 128, 255])]) + t[pos:] + rng.choice([b"", b"?a=b", b"#f", b"x?q#f"])
            method = rng.choice([b"GET", b"POST", b"PUT", b"DELETE", b"HEAD"])
            mask = rng.below(4)
            lines.append("rt-req %s %s %d" % (hx(method), hx(t), mask))
            exp.append(expected_line(routes, method, t, mask))
        cases.append(Case("c16-r%d" % ri, lines, {"expect": exp, "nontrivial": True}))
    return cases


def oracle(case, out):
    exp = case.meta.get("expect")
    if exp is None:
        return None
    if len(out) != len(exp):
        return "expected %d result lines, got %d (last: %s)" % (len(exp), len(out), out[-1:])
    for i, (e, o) in enumerate(zip(exp, out)):
        if e is not None and e != o:
            table = [l for l in case.lines if l.startswith("rt-add")]
            return "request %r on table %s: router answered %r, documented behaviour is %r" % (case.lines[i], table, o, e)
    return None


def nontrivial(case, out):
    return case.id if case.meta.get("nontrivial") else None


def search(rng, binaries, log):
    from vlib import run_parallel
    cases = generate("thorough", rng)
    impl, _ = run_parallel(binaries[HARNESS], cases, "search")
    for c in cases:
        il = impl.get(c.id, [])
        f = oracle(c, il)
        if f:
            return (c, f, il)
    return None
