"""C07 — client-side response reception is faithful and fragmentation-invariant."""
from vlib import Case, hx
import gen_http as G
from gen_http import Response, Header, Chunk

HARNESS = "rx_driver"
LEAN_MODULES = ["ViaProofs.C07"]
LEMMA_MODULES = ['ViaProofs.Frag.Lines', 'ViaProofs.Frag.Headers', 'ViaProofs.Frag.Compose', 'ViaProofs.C05', 'ViaProofs.Trans.SL', 'ViaProofs.Trans.FL', 'ViaProofs.Trans.CH', 'ViaProofs.Trans.MH', 'ViaProofs.Trans.CK', 'ViaProofs.Trans.RQ', 'ViaProofs.Trans.RS', 'ViaProofs.Trans.MHA', 'ViaProofs.Trans.RQP']
REQUIRED_THEOREMS = ["Via.C07_frag", "Via.RS.receive_head_seq", "Via.RS.receive_head_fail_seq"]
LEVEL = "proof"
LEVEL_TEXT = ('PROOF of fragmentation invariance and single-read correctness for the response receiver model (C07_frag); translated response_line / field_line / chunk parsers, rx_response::parse and response_receiver::receive + clear (Trans/RS, lifted to the per-read loop of the client: RS_readLoop_translated); differential correspondence incl. response sequences whose reads run over message boundaries, and the same through the REAL http_client read loop.')
RULE = ("well-formed responses framed by Content-Length or chunked coding (hand-written feature set + random within the limits) "
        "and their single-change malformed variants (version token, status syntax / over limit, reason over limit, whitespace "
        "runs, header-name byte, Content-Length syntax, chunk size syntax, chunk terminator, bare LF under strict) x partitions "
        "(whole, byte-wise, line-wise, every single cut, every pair of cuts for short messages, structural, random) x response "
        "configurations x containers; sequences of two or three responses on one connection with reads that run over the message boundary "
        "(a read that completes one body and carries the start of the next); expectation by construction; non-trivial = more than one read")
TRUSTED_BASE = ["tools/cxx2lean.py + cxx2lean_rx.py + cxx2lean_enc.py (translator, from the current C++ into Lean, of the parse_char / parse state machines, message_headers::parse, rx_chunk::parse, rx_request / rx_response::parse, request_receiver / response_receiver::receive + clear, the header look-ups content_length / is_chunked / close_connection / expect_continue, the predicates keep_alive / missing_host_header / expect_continue / is_head / is_trace, and the encoders incl. are_headers_split and tx_response::is_valid; the model is proved equal to the translation in ViaProofs/Trans; mapped by name, not translated: std::unordered_map::find, strtol-based from_dec_string / from_hex_string, stringstream-based to_hex_string, std::string::find, std::transform(tolower))", "Lean 4.33 kernel", "axioms: propext, Classical.choice, Quot.sound at most",
                "rx_driver (real response_receiver driven like http_client::receive_handler) + via_model driver"]
ASSUMPTIONS = ["a response without Content-Length and without chunked coding (body delimited by connection close) is outside the "
               "property; it is covered by the C05 safety checks only"]

FIXED = [
    Response(200, b"OK", b"11", [Header(b"Content-Length", [b"0"])]),
    Response(200, b"OK", b"11", [Header(b"Content-Length", [b"5"])], body=b"hello"),
    Response(404, b"Not Found", b"10", [Header(b"Content-Length", [b"3"]), Header(b"X-A", [b"1"]), Header(b"x-a", [b"2"])], body=b"abc"),
    Response(100, b"Continue", b"11", [Header(b"Content-Length", [b"0"])]),
    Response(200, b"", b"11", [Header(b"Content-Length", [b"1"])], body=b"z"),
    Response(301, b"Moved  Permanently", b"11", [Header(b"Location", [b"/x", b"y"], fold_ws=[b"\t"]), Header(b"Content-Length", [b"0"])]),
    Response(200, b"OK", b"11", [Header(b"Transfer-Encoding", [b"chunked"])], chunks=[Chunk(b"abc"), Chunk(b"defgh", ext=b"e=1")]),
    Response(200, b"OK", b"11", [Header(b"Transfer-Encoding", [b"Chunked"]), Header(b"Set-Cookie", [b"a"]), Header(b"set-cookie", [b"b"])],
             chunks=[], trailers=[Header(b"T", [b"v"])], last_ext=b"x"),
    Response(200, b"OK", b"11", [Header(b"Content-Length", [b"2"], eols=[b"\n"])], body=b"ab", line_eol=b"\n", blank_eol=b"\n"),
    Response(999, b"Weird", b"12", [Header(b"Connection", [b"close"]), Header(b"Content-Length", [b"0"])], sp=b"  ", sp2=b" "),
]


def uses_bare_lf(data):
    return any(c == 10 and (i == 0 or data[i - 1] != 13) for i, c in enumerate(data))


def malformed(cfg, rng):
    ok = b"Content-Length: 0\r\n\r\n"
    yield ("version", b"HTTQ/1.1 200 OK\r\n" + ok)
    yield ("version", b"HTTP/1.x 200 OK\r\n" + ok)
    yield ("version", b"HTTP/11 200 OK\r\n" + ok)
    yield ("no-ws", b"HTTP/1.1200 OK\r\n" + ok)
    yield ("status", b"HTTP/1.1 2x0 OK\r\n" + ok)
    yield ("status", b"HTTP/1.1 %d OK\r\n" % (cfg.a + 1) + ok)
    yield ("status", b"HTTP/1.1 OK\r\n" + ok)
    if cfg.b < 1000:
        yield ("reason-len", b"HTTP/1.1 200 " + b"r" * (cfg.b + 1) + b"\r\n" + ok)
    elif rng.chance(1, 8):
        yield ("reason-len-big", b"HTTP/1.1 200 " + b"r" * (cfg.b + 1) + b"\r\n" + ok)
    yield ("ws", b"HTTP/1.1 " + b" " * cfg.ws + b"200 OK\r\n" + ok)
    yield ("name-byte", b"HTTP/1.1 200 OK\r\nBad Name: x\r\n" + ok)
    yield ("name-byte", b"HTTP/1.1 200 OK\r\nX\x80: x\r\n" + ok)
    yield ("cl-syntax", b"HTTP/1.1 200 OK\r\nContent-Length: 1x\r\n\r\nab")
    yield ("cl-syntax", b"HTTP/1.1 200 OK\r\nContent-Length: -1\r\n\r\nab")
    if cfg.ll >= 30:
        te = b"HTTP/1.1 200 OK\r\nTransfer-Encoding: chunked\r\n\r\n"
        yield ("chunk-syntax", te + b"g\r\nabc\r\n0\r\n\r\n")
        yield ("chunk-syntax", te + b"3 \r\nabc\r\n0\r\n\r\n")
        yield ("chunk-syntax", te + b"\r\nabc\r\n0\r\n\r\n")
        yield ("chunk-term", te + b"3\r\nabcXX0\r\n\r\n")
        if cfg.strict:
            yield ("lf", te + b"3\nabc\r\n0\r\n\r\n")
            yield ("lf", te + b"3\r\nabc\n0\r\n\r\n")
    if cfg.strict:
        yield ("lf", b"HTTP/1.1 200 OK\n" + ok)
        yield ("lf", b"HTTP/1.1 200 OK\r\nContent-Length: 0\n\r\n")
        yield ("lf", b"HTTP/1.1 200 OK\r\nContent-Length: 0\r\n\n")


def generate(tier, rng):
    quick = tier == "quick"
    cases = []
    n = 0

    def add(cfgname, cont, data, exp, parts, tags):
        nonlocal n
        cfg = G.RESP_CFGS[cfgname]
        cases.append(Case("c07-%d" % n, [cfg.new_line(cont=cont)] + G.feed_lines(parts),
                          {"expect": exp, "nparts": len(parts), "tags": tags}))
        n += 1

    for mi, resp in enumerate(FIXED):
        data = resp.render()
        for cfgname in (["cli"] if uses_bare_lf(data) else ["cli", "clis"]):
            for cont in ("s", "v"):
                modes = ["whole", "bytes", "lines", "cut1", "struct"]
                if len(data) <= (44 if quick else 90) and cont == "s":
                    modes.append("cut2")
                for mode in modes:
                    for parts in G.partitions(data, rng, mode):
                        add(cfgname, cont, data, resp.expected(), parts, ["fixed", mode, cfgname])
    for ri in range(100 if quick else 3000):
        cfgname = rng.choice(list(G.RESP_CFGS))
        cfg = G.RESP_CFGS[cfgname]
        resp = G.rand_response(rng, cfg, small=True)
        if resp is None:
            continue
        data = resp.render()
        for mode in ("whole", "bytes", "lines", "struct", "random"):
            for parts in G.partitions(data, rng, mode, k=3):
                add(cfgname, rng.choice("sv"), data, resp.expected(), parts, ["random", mode, cfgname])
    # several responses one after the other on one connection (keep-alive): each must be delivered once and intact
    # wherever the reads fall — in particular when the read that completes one body also carries the start of the next
    for si in range(60 if quick else 1500):
        cfgname = rng.choice(list(G.RESP_CFGS))
        cfg = G.RESP_CFGS[cfgname]
        rs = [G.rand_response(rng, cfg, small=True, framing=rng.choice(["cl", "cl", "chunked", "cl0"])) for _ in range(rng.range(2, 3))]
        if any(r is None for r in rs):
            continue
        datas = [r.render() for r in rs]
        data = b"".join(datas)
        exp = []
        for r in rs:
            exp += r.expected()
        cont = rng.choice("sv")
        partss = []
        for mode in ("whole", "bytes", "lines", "struct", "random"):
            partss += list(G.partitions(data, rng, mode, k=3))
        # reads that end inside a body and then run over the message boundary
        b0 = len(datas[0])
        for back in (1, 2, 5):
            for fwd in (1, 3, len(datas[1]) // 2):
                c1, c2 = b0 - back, b0 + fwd
                if 0 < c1 < c2 < len(data):
                    partss.append([data[:c1], data[c1:c2], data[c2:]])
        for parts in partss:
            add(cfgname, cont, data, exp, [p for p in parts if p], ["sequence", cfgname])
    for cfgname in G.RESP_CFGS:
        cfg = G.RESP_CFGS[cfgname]
        for (cls, data) in malformed(cfg, rng):
            for mode in (("whole", "lines", "random") if len(data) > 500 else ("whole", "bytes", "lines", "cut1", "struct")):
                for parts in G.partitions(data, rng, mode, k=4):
                    add(cfgname, rng.choice("sv"), data, ("INVALID", cls), parts, [cls, mode, cfgname])
    return cases


def oracle(case, out):
    exp = case.meta.get("expect")
    if exp is None:
        return None
    got = G.deliveries(out[1:])
    if isinstance(exp, tuple):
        cls = exp[1]
        if cls.startswith("chunk") or cls == "lf":
            # the head of a chunked response is delivered before its chunks
            if got and got[0].startswith("VALID") and "chunked=1" in got[0]:
                got = got[1:]
        if any(g.startswith("VALID") for g in got):
            return "class %s: malformed response reported as valid: %s" % (cls, [g[:70] for g in got])
        if not any(g.startswith("INVALID") for g in got):
            return "class %s: malformed response neither accepted nor rejected: %s" % (cls, [g[:70] for g in got])
        return None
    if got != exp:
        return "response delivered differently when split into %d reads:\n expected %s\n got      %s" % (case.meta.get("nparts", 0), exp, got)
    return None


def nontrivial(case, out):
    return case.id if case.meta.get("nparts", 0) > 1 else None


def search(rng, binaries, log):
    from vlib import run_parallel
    cases = generate("thorough", rng)
    impl, _ = run_parallel(binaries[HARNESS], cases, "search")
    for c in cases:
        il = impl.get(c.id, [])
        f = oracle(c, il)
        if f:
            return (c, f, il)
    return None


def extra_checks(tier, rng, binaries, log):
    """the REAL http_client (sim_driver client mode): see tools/clientsim.py"""
    import clientsim
    return clientsim.run(tier, rng.fork("client"), binaries, log, ['rx'])
