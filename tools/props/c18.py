"""C18 — the concurrent map behaves as an ordinary key->value map: sequential refinement (C18_seq) and linearizability
for every schedule of the micro-step interleaving model (C18Conc: C18_linearizable), whose mutex modes are tied to the
source by an extracted fact; threaded runs (Wing-Gong, TSan) validate the model against the real std::shared_mutex code."""
import itertools
from vlib import Case

HARNESS = "rx_driver"
LEAN_MODULES = ["ViaProofs.C18", "ViaProofs.C18Conc"]
REQUIRED_THEOREMS = ['Via.C18_seq', 'Via.erase_absent_noop', 'Via.C18_erase_compares_key_under_lock', 'Via.C18_lock_discipline', 'Via.C18_commute_distinct_buckets',
                     'Via.HM.Conc.step_inv', 'Via.HM.Conc.step_hinv', 'Via.HM.Conc.C18_linearizable', 'Via.HM.Conc.C18_returned',
                     'Via.HM.Conc.C18_lock_modes_match']
LEVEL = "proof"
LEVEL_TEXT = ('PROOF (1) of sequential refinement to an ordinary map for every bucket count, hash function and history (C18_seq, erase-absent-is-noop) and (2) of LINEARIZABILITY FOR EVERY SCHEDULE (ViaProofs/C18Conc.lean over ViaModel/HashMapConc.lean): any number of threads, every operation split into the micro-steps of the C++ (take the bucket mutex exclusively or shared / read the bucket / write the bucket / release; empty, data and clear take all mutexes in index order first), a mutex obtainable only when no other thread holds it in a conflicting mode, nothing assumed about the scheduler; in every reachable state the linearization points in their order of occurrence are a run of the sequential map with exactly the results returned, every linearization point lies between its invocation and its return (C18_linearizable, C18_returned), and the quiescent memory equals the sequential map. The mutex mode of every operation in the model equals the mode in the current source (C18_lock_modes_match over a re-extracted fact, which also requires that whole-map operations take every mutex before their first access). Modelled, not verified: std::shared_mutex semantics, that each operation accesses only the bucket(s) whose mutex it holds, data races inside std::vector (TSan run).')
RULE = ("all operation histories up to a length bound over keys {1,2,3,22} x bucket configurations "
        "(1 bucket = maximal collision, 3 buckets, default 19) plus random histories up to 200 operations; "
        "each history ends by reading back every key, empty() and data(); non-trivial = contains an erase or an "
        "overwrite; distinct = distinct (configuration, history)")
TRUSTED_BASE = ["Lean 4.33 kernel", "axioms: propext, Classical.choice, Quot.sound at most",
                "tools/extract.py (lock discipline, key comparison in remove_mapping as structural facts)",
                "rx_driver harness + via_model driver", "std::vector/std::lower_bound modelled as list operations",
                "std::shared_mutex provides exclusive/shared mutual exclusion (the enabling condition of the acquire steps in ViaModel/HashMapConc.lean)",
                "the split of each operation into micro-steps (acquire, read bucket, write bucket, release) is hand-written from the source; lock modes and lock-before-access order are re-extracted"]
ASSUMPTIONS = ["bucket count > 0 (hash % 0 is undefined in the C++ as well)",
               "a thread touches only the bucket(s) whose mutex it holds (extracted: the mutex is taken before the first use of data_)"]
EXHAUSTIVE = {"quick": "all histories of <= 3 operations over 3 keys x 3 bucket configurations",
              "thorough": "all histories of <= 4 operations over 3 keys x 3 bucket configurations"}

KEYS = [1, 2, 3]
CONFIGS = [(1, 0), (3, 2), (19, 0)]
BATCH = 16


def ops_alphabet():
    al = []
    for k in KEYS:
        al.append(("ins", k))
        al.append(("erase", k))
        al.append(("find", k))
    al += [("empty",), ("data",), ("clear",)]
    return al


def render(cfg, hist, keys):
    """script lines + expected outputs computed on a python dict"""
    lines = ["hm-new %d %d" % cfg]
    exp = ["ok"]
    d = {}
    vc = 0
    for op in hist:
        if op[0] == "ins":
            vc += 1
            lines.append("hm-ins %d %d" % (op[1], vc))
            d[op[1]] = vc
            exp.append("ok")
        elif op[0] == "erase":
            lines.append("hm-erase %d" % op[1])
            d.pop(op[1], None)
            exp.append("ok")
        elif op[0] == "find":
            lines.append("hm-find %d" % op[1])
            exp.append("%d=%d" % (op[1], d[op[1]]) if op[1] in d else "none")
        elif op[0] == "empty":
            lines.append("hm-empty")
            exp.append("0" if d else "1")
        elif op[0] == "data":
            lines.append("hm-data")
            exp.append(("set", dict(d)))
        elif op[0] == "clear":
            lines.append("hm-clear")
            d.clear()
            exp.append("ok")
    for k in keys:
        lines.append("hm-find %d" % k)
        exp.append("%d=%d" % (k, d[k]) if k in d else "none")
    lines.append("hm-empty")
    exp.append("0" if d else "1")
    lines.append("hm-data")
    exp.append(("set", dict(d)))
    return lines, exp


def generate(tier, rng):
    maxlen = 3 if tier == "quick" else 4
    al = ops_alphabet()
    hists = []
    for cfg in CONFIGS:
        for n in range(0, maxlen + 1):
            for h in itertools.product(al, repeat=n):
                hists.append((cfg, list(h), KEYS))
    nrand = 1500 if tier == "quick" else 5000
    for _ in range(nrand):
        cfg = rng.choice(CONFIGS + [(19, 2), (3, 0), (1, 2)])
        keys = [rng.below(60) for _ in range(rng.range(2, 8))]
        h = []
        for _ in range(rng.range(5, 200 if tier == "thorough" else 60)):
            r = rng.below(100)
            k = rng.choice(keys)
            if r < 40:
                h.append(("ins", k))
            elif r < 65:
                h.append(("erase", rng.choice(keys + [k + 1])))
            elif r < 85:
                h.append(("find", k))
            elif r < 90:
                h.append(("empty",))
            elif r < 97:
                h.append(("data",))
            else:
                h.append(("clear",))
        hists.append((cfg, h, sorted(set(keys))))
    cases = []
    for bi in range(0, len(hists), BATCH):
        lines = []
        exp = []
        nontriv = False
        for (cfg, h, keys) in hists[bi:bi + BATCH]:
            l, e = render(cfg, h, keys)
            lines += l
            exp += e
            seen = set()
            for op in h:
                if op[0] == "erase" or (op[0] == "ins" and op[1] in seen):
                    nontriv = True
                if op[0] == "ins":
                    seen.add(op[1])
        cases.append(Case("c18-%d" % (bi // BATCH), lines, {"expect": exp, "nontrivial": nontriv}))
    return cases


def oracle(case, out):
    exp = case.meta.get("expect")
    if exp is None:
        return None
    if len(out) != len(exp):
        return "expected %d result lines, got %d (last: %s)" % (len(exp), len(out), out[-1:])
    for i, (e, o) in enumerate(zip(exp, out)):
        if isinstance(e, tuple):
            got = {}
            if o != "-":
                for kv in o.split(","):
                    k, v = kv.split("=")
                    if int(k) in got:
                        return "op %d %r: data() lists key %s twice" % (i, case.lines[i], k)
                    got[int(k)] = int(v)
            if got != e[1]:
                return "op %d %r: data() = %s but an ordinary map holds %s" % (i, case.lines[i], got, e[1])
        elif e != o:
            return "op %d %r: returned %r but an ordinary map returns %r (history: %s)" % (
                i, case.lines[i], o, e, "; ".join(case.lines[max(0, i - 8):i + 1]))
    return None


def nontrivial(case, out):
    return case.id if case.meta.get("nontrivial") else None


def search(rng, binaries, log):
    from vlib import run_parallel
    cases = generate("thorough", rng)
    impl, _ = run_parallel(binaries[HARNESS], cases, "search")
    for c in cases:
        il = impl.get(c.id, [])
        f = oracle(c, il)
        if f:
            return (c, f, il)
    return None


def extra_checks(tier, rng, binaries, log):
    """threaded histories on the real map, each checked for linearizability against std::map (Wing & Gong search inside
    map_mt_driver); a history without a linearization is the replay"""
    import re
    import subprocess
    import vlib
    res = []
    quick = tier == "quick"
    runs = [("map_mt_driver", 4, 4, 3, 1, 30000), ("map_mt_driver", 4, 4, 3, 3, 10000)] if quick else \
           [("map_mt_driver", 4, 4, 3, 1, 400000), ("map_mt_driver", 6, 4, 4, 1, 100000), ("map_mt_driver", 4, 5, 3, 3, 200000),
            ("map_mt_driver", 4, 4, 3, 19, 200000), ("map_mt_driver_tsan", 4, 4, 3, 1, 20000), ("map_mt_driver_tsan", 4, 4, 3, 3, 20000)]
    n = 0
    hist = 0
    pairs = 0
    for (h, threads, ops, keys, buckets, rounds) in runs:
        try:
            binary = binaries.get(h) or vlib.build_harness(h, log)
        except vlib.BuildError as e:
            res.append((False, "map_mt_driver (%s) does not build against the current tree: %s" % (h, str(e)[-300:]), "build " + h, {}))
            continue
        args = ["rounds=%d" % rounds, "threads=%d" % threads, "ops=%d" % ops, "keys=%d" % keys, "buckets=%d" % buckets,
                "seed=%d" % rng.range(1, 1 << 30)]
        cmdline = "%s %s" % (h, " ".join(args))
        try:
            r = subprocess.run([binary] + args, capture_output=True, text=True, timeout=1200)
        except subprocess.TimeoutExpired:
            res.append((False, "map_mt_driver hung (deadlock?): " + cmdline, cmdline, {}))
            continue
        m = re.search(r"^RESULT (.*)$", r.stdout, re.M)
        n += 1
        if not m:
            res.append((False, "abort: map_mt_driver crashed: " + (r.stdout + r.stderr)[-600:], cmdline, {}))
            continue
        kv = dict(x.split("=", 1) for x in m.group(1).split() if "=" in x)
        hist += int(kv.get("histories", 0))
        pairs += int(kv.get("concurrent_pairs", 0))
        if kv.get("linearizable") != "1":
            history = r.stdout[m.end():].strip()
            res.append((False, "a concurrent history of the map has no linearization (threads=%d, buckets=%d):\n%s" % (
                threads, buckets, history), cmdline + "\n# " + history.replace("\n", "\n# "), {}))
        if kv.get("tsan_reports", "0") != "0":
            top = [l for l in r.stderr.splitlines() if "via::" in l][:6]
            res.append((False, "ThreadSanitizer reported %s data race(s) in the map: %s" % (kv.get("tsan_reports"), top), cmdline, {}))
    res.append((True, "", "", {"threaded_runs": n, "threaded_histories_checked": hist, "concurrent_operation_pairs": pairs}))
    return res
