"""C05 — arbitrary bytes never crash, corrupt memory, throw or hang the receivers."""
from vlib import Case, hx
import gen_http as G

HARNESS = "rx_driver"
LEAN_MODULES = ["ViaProofs.C05"]
LEMMA_MODULES = ['ViaProofs.Frag.Lines', 'ViaProofs.Frag.Headers', 'ViaProofs.Frag.Compose', 'ViaProofs.Trans.RL', 'ViaProofs.Trans.SL', 'ViaProofs.Trans.FL', 'ViaProofs.Trans.CH', 'ViaProofs.Trans.MH', 'ViaProofs.Trans.CK', 'ViaProofs.Trans.RQ', 'ViaProofs.Trans.RR', 'ViaProofs.Trans.RS', 'ViaProofs.Trans.MHA', 'ViaProofs.Trans.RQP']
REQUIRED_THEOREMS = ['Via.RR.receive_suffix', 'Via.RR.receive_progress', 'Via.RR.ok_init', 'Via.RR.ok_step', 'Via.RR.readLoop_done', 'Via.RS.receive_suffix', 'Via.RS.receive_progress', 'Via.RS.ok_init', 'Via.RS.ok_step', 'Via.RS.readLoop_done']
LEVEL = "proof"
LEVEL_TEXT = ('PROOF of termination and index safety on the model: every receive consumes a prefix of its input (no index outside the buffer), makes progress or reports INVALID, and the per-read loops of server and client end within |read|+1 steps (well-founded recursion, no fuel); translated parsers and both receive functions as C01 / C07. PARTIAL for memory safety of the C++ itself: the same inputs run under ASan/UBSan/_GLIBCXX_DEBUG with aborts, hangs (watchdog) and escaped exceptions as compared outputs, including through the real http_client.')
RULE = ("byte streams: uniformly random octets, random octets over an HTTP-ish alphabet, valid messages with random corruption "
        "(byte flips, insertions, deletions, truncation, duplication of lines), every single cut of short corrupted streams; "
        "fed to request and response receivers of every configuration and container in random fragments; oracle: no "
        "sanitizer abort / exception, every read ends with nothing left unless INVALID, receive() calls per read <= bytes+2; "
        "non-trivial = the stream is not a valid message; distinct = distinct (config, stream, partition)")
TRUSTED_BASE = ["tools/cxx2lean.py + cxx2lean_rx.py + cxx2lean_enc.py (translator, from the current C++ into Lean, of the parse_char / parse state machines, message_headers::parse, rx_chunk::parse, rx_request / rx_response::parse, request_receiver / response_receiver::receive + clear, the header look-ups content_length / is_chunked / close_connection / expect_continue, the predicates keep_alive / missing_host_header / expect_continue / is_head / is_trace, and the encoders incl. are_headers_split and tx_response::is_valid; the model is proved equal to the translation in ViaProofs/Trans; mapped by name, not translated: std::unordered_map::find, strtol-based from_dec_string / from_hex_string, stringstream-based to_hex_string, std::string::find, std::transform(tolower))", "Lean 4.33 kernel", "axioms: propext, Classical.choice, Quot.sound at most",
                "rx_driver built with ASan + UBSan + _GLIBCXX_DEBUG: memory safety of the C++ is observed, not proved",
                "via_model driver"]
ASSUMPTIONS = ["termination, progress and index arithmetic are theorems about the model; that the C++ computes the same function is "
               "the correspondence; out-of-bounds accesses the model cannot represent would show up as sanitizer aborts"]

ALPH = b"GETPOSTHTTP/1.1 \r\n\r\n\r\n:;,=-chunked0123456789abcdefContent-LengthTransfer-EncodingHostExpect100-continue\t\x00\xff"


def corrupt(rng, data):
    data = bytearray(data)
    for _ in range(rng.range(1, 3)):
        if not data:
            break
        k = rng.below(6)
        i = rng.below(len(data))
        if k == 0:
            data[i] = rng.below(256)
        elif k == 1:
            data[i:i] = rng.bytes(rng.range(1, 3), ALPH)
        elif k == 2:
            del data[i:i + rng.range(1, 3)]
        elif k == 3:
            data = data[:i]
        elif k == 4:
            j = min(len(data), i + rng.range(1, 12))
            data[i:i] = data[i:j]
        else:
            data[i] = rng.choice(b"\r\n \t:;")
    return bytes(data)


def generate(tier, rng):
    quick = tier == "quick"
    cases = []
    n = 0
    total = 12000 if quick else 60000
    for i in range(total):
        is_req = rng.chance(2, 3)
        cfgname = rng.choice(list(G.REQ_CFGS)) if is_req else rng.choice(list(G.RESP_CFGS))
        cfg = G.REQ_CFGS[cfgname] if is_req else G.RESP_CFGS[cfgname]
        kind = rng.below(5)
        if kind == 0:
            data = rng.bytes(rng.range(1, 80))
        elif kind == 1:
            data = rng.bytes(rng.range(1, 120), ALPH)
        else:
            if is_req:
                msg = G.rand_request(rng, cfg, small=True).render()
                if rng.chance(1, 3):
                    msg += G.rand_request(rng, cfg, small=True).render()
            else:
                r = G.rand_response(rng, cfg, small=True)
                msg = r.render() if r else b"HTTP/1.1 200 OK\r\n\r\n"
            data = corrupt(rng, msg) if kind < 4 else msg
        mode = rng.choice(["whole", "bytes", "random", "random", "lines", "struct1"])
        if mode == "struct1":
            plist = [G.cuts_to_parts(data, [rng.below(max(1, len(data)))])]
        else:
            plist = list(G.partitions(data, rng, mode, k=1))
        for parts in plist[:1]:
            lines = [cfg.new_line(cont=rng.choice("sv"), cc=rng.below(2), th=rng.below(2),
                                  maxc=rng.choice([5, 100, 1048576]), maxk=rng.choice([4, 100, 1048576]))
                     if is_req else cfg.new_line(cont=rng.choice("sv"), maxc=rng.choice([5, 1000, 1048576]), maxk=rng.choice([4, 1048576]))]
            lines += G.feed_lines(parts)
            cases.append(Case("c05-%d" % n, lines, {"sizes": [len(p) for p in parts], "tags": ["req" if is_req else "resp", "kind%d" % kind, mode]}))
            n += 1
    # long runs of digits wherever a number is read: status code, version, Content-Length, chunk size (arithmetic on
    # them must not overflow, whatever the length of the run)
    for ndig in (6, 9, 10, 11, 19, 20, 21, 40, 1000) + (() if quick else (100000,)):
        digs = [b"9" * ndig, b"4294967496"[:ndig].ljust(ndig, b"6"), b"1" + b"0" * (ndig - 1)]
        for d in digs:
            streams = [
                ("resp", b"HTTP/1.1 " + d + b" OK\r\nContent-Length: 0\r\n\r\n"),
                ("resp", b"HTTP/1.1 200 OK\r\nContent-Length: " + d + b"\r\n\r\nabc"),
                ("resp", b"HTTP/1.1 200 OK\r\nTransfer-Encoding: chunked\r\n\r\n" + d + b"\r\nabc\r\n0\r\n\r\n"),
                ("req", b"POST / HTTP/1.1\r\nHost: a\r\nContent-Length: " + d + b"\r\n\r\nabc"),
                ("req", b"POST / HTTP/1.1\r\nHost: a\r\nTransfer-Encoding: chunked\r\n\r\n" + d + b"\r\nabc\r\n0\r\n\r\n"),
                ("req", b"GET / HTTP/" + d[:3] + b"." + d[:3] + b"\r\nHost: a\r\n\r\n"),
            ]
            for (side, data) in streams:
                cfg = G.REQ_CFGS["srv"] if side == "req" else G.RESP_CFGS["cli"]
                for mode in ("whole", "chunk7") + (("bytes",) if ndig <= 40 else ()):
                    if mode == "whole":
                        parts = [data]
                    elif mode == "bytes":
                        parts = [data[i:i + 1] for i in range(len(data))]
                    else:
                        parts = [data[i:i + 7] for i in range(0, len(data), 7)]
                    lines = [cfg.new_line()] + G.feed_lines(parts)
                    cases.append(Case("c05-%d" % n, lines, {"sizes": [len(p) for p in parts], "tags": [side, "digit-run", mode]}))
                    n += 1
    # every single cut of a few corrupted short streams
    for i in range(20 if quick else 60):
        cfgname = rng.choice(["srv", "srvs", "tiny"])
        cfg = G.REQ_CFGS[cfgname]
        data = corrupt(rng, G.rand_request(rng, cfg, small=True).render())[:90]
        for parts in G.partitions(data, rng, "cut1"):
            lines = [cfg.new_line(cc=rng.below(2))] + G.feed_lines(parts)
            cases.append(Case("c05-%d" % n, lines, {"sizes": [len(p) for p in parts], "tags": ["req", "cut1", cfgname]}))
            n += 1
    return cases


def oracle(case, out):
    sizes = case.meta.get("sizes")
    for l in out:
        if l.startswith("abort"):
            return "the receiver aborted: %s" % l
    if sizes is None:
        return None
    if not out or out[0] != "ok":
        return "receiver not created: %s" % out[:1]
    reads = []
    cur = []
    for l in out[1:]:
        cur.append(l)
        if l.startswith("read-done"):
            reads.append(cur)
            cur = []
    if len(reads) != len(sizes):
        return "%d reads were fed but %d completed (crash or hang): %s" % (len(sizes), len(reads), out[-2:])
    for size, rd in zip(sizes, reads):
        done = rd[-1].split()
        calls = int(done[1].split("=")[1])
        left = int(done[2].split("=")[1])
        if calls > size + 2:
            return "%d receive() calls for a read of %d bytes" % (calls, size)
        last_invalid = len(rd) >= 2 and rd[-2].startswith("rx=INVALID")
        if left != 0 and not last_invalid:
            return "read of %d bytes ended with %d bytes unprocessed without INVALID" % (size, left)
        used = 0
        for l in rd[:-1]:
            if not l.startswith("rx="):
                return "unexpected line %r" % l
            name = l.split()[0][3:]
            if name not in ("INVALID", "EXPECT_CONTINUE", "INCOMPLETE", "VALID", "CHUNK"):
                return "undefined outcome %r" % name
            used += int(l.split()[1].split("=")[1])
        if used + left != size:
            return "consumed %d + left %d != %d bytes read" % (used, left, size)
    return None


def nontrivial(case, out):
    return case.id if any("INVALID" in l for l in out) or len(case.meta.get("sizes", [])) > 1 else None


def search(rng, binaries, log):
    from vlib import run_parallel
    cases = generate("thorough", rng)
    impl, _ = run_parallel(binaries[HARNESS], cases, "search")
    for c in cases:
        il = impl.get(c.id, [])
        f = oracle(c, il)
        if f:
            return (c, f, il)
    return None


def extra_checks(tier, rng, binaries, log):
    """the REAL http_client (sim_driver client mode): see tools/clientsim.py"""
    import clientsim
    return clientsim.run(tier, rng.fork("client"), binaries, log, ['abort'])
