"""C03 — each request gets exactly one complete response, in order, in every schedule."""
import simcommon as S
import gen_sim
from vlib import Case, hx

HARNESS = "sim_driver"
LEAN_MODULES = ["ViaProofs.C03"]
LEMMA_MODULES = ['ViaProofs.ConnLemmas', 'ViaProofs.ConnWrites']
REQUIRED_THEOREMS = ['Via.C03_partial_write_started', 'Via.C03_partial_bytes_stable', 'Via.C03_overlap_is_refused', 'Via.C03_partial_one_write_in_flight']
LEVEL = "proof"
LEVEL_TEXT = ('PARTIAL PROOF: the full property is false of the code (known finding C03-KF1: a response issued while a write is in flight is dropped); proved: a send on an idle connection starts exactly one write of exactly its buffers, at most one write is in flight after EVERY history (C03_partial_one_write_in_flight), an overlapping send is the refused one. The real http_server/http_connection/comms templates run over a scripted adaptor and are compared line by line with the model on generated histories; order/exactly-once oracle on the real trace. Kernel partial-write sizes and thread-pool effects are modelled as event nondeterminism.')
TRUSTED_BASE = S.SIM_TRUSTED
ASSUMPTIONS = S.SIM_ASSUMPTIONS
compare = S.compare

PROP = "C03"

RULE = ("connection histories (1-3 connections; requests sequential or pipelined, in one read or several, Content-Length or chunked, "
        "answered inside the handler with fixed or chunked responses, later, or by the router) x orderings of read / write "
        "completions and errors x tcp / ssl flavour; oracle: per connection the bodies r<k> (or chunks a<k>,b<k>) found in the bytes "
        "handed to the adaptor at write completion equal the request order; non-trivial = at least two requests on one connection")


def generate(tier, rng):
    cases = S.corpus_cases("C03") + kf_cases()
    cases += S.make_cases("c03", tier, rng, 350, 12000, force={"policy": "sync"})
    cases += S.make_cases("c03o", tier, rng, 80, 3000, force={"policy": "sync"}, avoid_overlap=False)
    cases += S.make_cases("c03r", tier, rng, 60, 2000, force={"policy": "router"})
    # sequences of complete valid requests whose bytes are cut so that the read completing one request already carries
    # the first bytes of the next (never its complete head, so no response overlaps a write in flight)
    for i in range(250 if tier == "quick" else 8000):
        line, o = gen_sim.server_line(rng, {"policy": "sync", "resp": "fixed", "filter": "all", "autodisc": 0, "invh": 0, "conth": 0})
        lines = [line, "accept"]
        if o["flavour"] == "ssl":
            lines.append("hs c0 ok")
        nreq = rng.range(2, 5)
        reqs = []
        kinds = []
        for j in range(nreq):
            kind = rng.choice(["get", "post", "post", "chunked", "post0"])
            kinds.append(kind)
            if kind == "get":
                reqs.append(gen_sim.req(target=b"/g%d" % j, headers=[gen_sim.HOST]))
            elif kind == "post":
                body = rng.bytes(rng.range(1, 30))
                reqs.append(gen_sim.req(b"POST", b"/p%d" % j, headers=[gen_sim.HOST, (b"Content-Length", b"%d" % len(body))], body=body))
            elif kind == "post0":
                reqs.append(gen_sim.req(b"POST", b"/z%d" % j, headers=[gen_sim.HOST, (b"Content-Length", b"0")]))
            else:
                reqs.append(gen_sim.req(b"PUT", b"/c%d" % j, headers=[gen_sim.HOST, (b"Transfer-Encoding", b"chunked")],
                                        chunks=[rng.bytes(rng.range(1, 9)) for _ in range(rng.range(0, 2))]))
        carry = b""
        for j, data in enumerate(reqs):
            data = carry + data
            carry = b""
            steal = 0
            if j + 1 < len(reqs) and rng.chance(2, 3) and kinds[j] != "get":
                steal = rng.range(1, 12)          # bytes of the next request line, never the complete head
                data += reqs[j + 1][:steal]
                reqs[j + 1] = reqs[j + 1][steal:]
            parts = gen_sim.split_reads(rng, data)
            # a body-less first part followed by further bytes in the same read is the 411 known finding (C01-KF1):
            # keep the stolen bytes only when the request has a body or explicit length
            for part in parts:
                lines.append("read c0 " + hx(part))
                lines.append("wdone c0")
        lines.append("state")
        cases.append(Case("c03-seq-%d" % i, lines, {"opts": o, "complete": True, "expect_requests": nreq,
                                                    "tags": ["sequence", o["flavour"]]}))
    # responses sent piece by piece from the message-sent handler (head, chunk a<k>, chunk b<k>, last chunk — each issued
    # when the previous write has completed): every piece of every response must reach the wire, in order
    for i in range(80 if tier == "quick" else 3000):
        line, o = gen_sim.server_line(rng, {"policy": "sync", "resp": "chunked", "senth": 1, "filter": "all", "autodisc": 0,
                                            "invh": 0, "conth": 0, "chunkh": 0})
        lines = [line, "accept"]
        if o["flavour"] == "ssl":
            lines.append("hs c0 ok")
        nreq = rng.range(1, 4)
        early = False       # the first part of this request's head was already read while the previous response was being sent
        tag = "sent-driven"
        for j in range(nreq):
            data = gen_sim.req(target=b"/k%d" % j, headers=[gen_sim.HOST])
            if early:
                lines.append("read c0 " + hx(data[cut:]))
            else:
                for part in gen_sim.split_reads(rng, data):
                    lines.append("read c0 " + hx(part))
            early = False
            if j + 1 < nreq and rng.chance(1, 2):
                # the peer starts its next request while this response is still being streamed: the first bytes of the
                # next head (not a complete request) arrive between two pieces
                nxt = gen_sim.req(target=b"/k%d" % (j + 1), headers=[gen_sim.HOST])
                cut = rng.range(1, len(nxt) - 1)
                k = rng.range(1, 3)
                lines += ["wdone c0"] * k
                lines.append("read c0 " + hx(nxt[:cut]))
                lines += ["wdone c0"] * (4 - k)
                early = True
                tag = "sent-driven-early-next"
            else:
                lines += ["wdone c0"] * 4
        lines.append("state")
        cases.append(Case("c03-chk-%d" % i, lines, {"opts": o, "complete": True, "expect_chunked": nreq,
                                                    "tags": [tag, o["flavour"]]}))
    return cases


def kf_cases():
    import os, json
    root = os.path.dirname(os.path.dirname(os.path.dirname(os.path.abspath(__file__))))
    cases = []
    for f in json.load(open(os.path.join(root, "known_findings.json")))["findings"]:
        if f["property"] != PROP or f.get("status") != "open":
            continue
        txt = open(os.path.join(root, f["witness"])).read()
        lines = [l for l in txt.splitlines() if l and not l.startswith("#") and not l.startswith("case ")]
        opts = {}
        for tok in lines[0].split()[1:]:
            a, b = tok.split("=", 1)
            opts[a] = b
        opts.setdefault("flavour", "tcp")
        opts.setdefault("policy", "sync")
        cases.append(Case("kf-" + f["id"], lines, {"opts": opts, "kf_witness": f["id"], "complete": True, "tags": ["kf-witness"]}))
    return cases


def _load_findings():
    import os, json
    root = os.path.dirname(os.path.dirname(os.path.dirname(os.path.abspath(__file__))))
    return [f for f in json.load(open(os.path.join(root, "known_findings.json")))["findings"] if f["property"] == PROP]


FINDINGS_ALL = _load_findings()


def classify(case, fail, il, findings):
    ids = set(f["id"] for f in findings)
    if "C03-KF1" in ids and (case.meta.get("kf") or case.meta.get("kf_witness") == "C03-KF1"):
        return "C03-KF1"
    return None


def oracle(case, out):
    f = S.oracle_c03(case, out)
    if f:
        return f
    n = case.meta.get("expect_requests")
    if n is not None and not case.meta.get("kf"):
        got = sum(1 for l in out if l.startswith("ev request "))
        wires = sum(1 for l in out if l.startswith("io wire ") and "485454502f312e3120323030" in l)
        if got != n or wires != n:
            return "%d complete valid requests were sent one after the other, %d were delivered and %d were answered with 200" % (n, got, wires)
    n = case.meta.get("expect_chunked")
    if n is not None and not case.meta.get("kf"):
        data = b"".join(bytes.fromhex(l.split()[3]) for l in out if l.startswith("io wire c0 ") and len(l.split()) > 3 and l.split()[3] != "-")
        want = b""
        import re as _re
        pieces = _re.findall(rb"\r\n\r\n|2\r\n[ab]\d\r\n|0\r\n\r\n", data)
        got = [p for p in pieces if p[:1] in (b"2", b"0")]
        exp = []
        for k in range(1, n + 1):
            exp += [b"2\r\na%d\r\n" % k, b"2\r\nb%d\r\n" % k, b"0\r\n\r\n"]
        if got != exp:
            return ("%d requests were each answered with a chunked response sent piece by piece from the message-sent handler; "
                    "the chunk pieces on the wire are %s, expected %s" % (n, got, exp))
    return None


def nontrivial(case, out):
    return case.id if len(case.lines) > 4 else None


def search(rng, binaries, log):
    from vlib import run_parallel
    cases = generate("thorough", rng)[:4000]
    impl, _ = run_parallel(binaries[HARNESS], cases, "search")
    for c in cases:
        il = impl.get(c.id, [])
        f = oracle(c, il)
        if f and not classify(c, f, il, FINDINGS_ALL):
            return (c, f, il)
    return None
