"""C03 — each request gets exactly one complete response, in order, in every schedule."""
import simcommon as S
import gen_sim
from vlib import Case, hx

HARNESS = "sim_driver"
LEAN_MODULES = ["ViaProofs.C03"]
REQUIRED_THEOREMS = []
LEVEL = "proof"
TRUSTED_BASE = S.SIM_TRUSTED
ASSUMPTIONS = S.SIM_ASSUMPTIONS
compare = S.compare

PROP = "C03"

RULE = ("connection histories (1-3 connections; requests sequential or pipelined, in one read or several, Content-Length or chunked, "
        "answered inside the handler with fixed or chunked responses, later, or by the router) x orderings of read / write "
        "completions and errors x tcp / ssl flavour; oracle: per connection the bodies r<k> (or chunks a<k>,b<k>) found in the bytes "
        "handed to the adaptor at write completion equal the request order; non-trivial = at least two requests on one connection")


def generate(tier, rng):
    cases = S.corpus_cases("C03") + kf_cases()
    cases += S.make_cases("c03", tier, rng, 350, 12000, force={"policy": "sync"})
    cases += S.make_cases("c03o", tier, rng, 80, 3000, force={"policy": "sync"}, avoid_overlap=False)
    cases += S.make_cases("c03r", tier, rng, 60, 2000, force={"policy": "router"})
    return cases


def kf_cases():
    import os, json
    root = os.path.dirname(os.path.dirname(os.path.dirname(os.path.abspath(__file__))))
    cases = []
    for f in json.load(open(os.path.join(root, "known_findings.json")))["findings"]:
        if f["property"] != PROP or f.get("status") != "open":
            continue
        txt = open(os.path.join(root, f["witness"])).read()
        lines = [l for l in txt.splitlines() if l and not l.startswith("#") and not l.startswith("case ")]
        opts = {}
        for tok in lines[0].split()[1:]:
            a, b = tok.split("=", 1)
            opts[a] = b
        opts.setdefault("flavour", "tcp")
        opts.setdefault("policy", "sync")
        cases.append(Case("kf-" + f["id"], lines, {"opts": opts, "kf_witness": f["id"], "complete": True, "tags": ["kf-witness"]}))
    return cases


def _load_findings():
    import os, json
    root = os.path.dirname(os.path.dirname(os.path.dirname(os.path.abspath(__file__))))
    return [f for f in json.load(open(os.path.join(root, "known_findings.json")))["findings"] if f["property"] == PROP]


FINDINGS_ALL = _load_findings()


def classify(case, fail, il, findings):
    ids = set(f["id"] for f in findings)
    if "C03-KF1" in ids and (case.meta.get("kf") or case.meta.get("kf_witness") == "C03-KF1"):
        return "C03-KF1"
    return None


def oracle(case, out):
    return S.oracle_c03(case, out)


def nontrivial(case, out):
    return case.id if len(case.lines) > 4 else None


def search(rng, binaries, log):
    from vlib import run_parallel
    cases = generate("thorough", rng)[:4000]
    impl, _ = run_parallel(binaries[HARNESS], cases, "search")
    for c in cases:
        il = impl.get(c.id, [])
        f = oracle(c, il)
        if f and not classify(c, f, il, FINDINGS_ALL):
            return (c, f, il)
    return None
