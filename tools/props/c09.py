"""C09 — connections close exactly when HTTP says so, never before the response is out."""
import simcommon as S
import gen_sim
from vlib import Case, hx

HARNESS = "sim_driver"
LEAN_MODULES = ["ViaProofs.C09"]
LEMMA_MODULES = ['ViaProofs.ConnLemmas', 'ViaProofs.ConnWrites', 'ViaProofs.Trans.MHA', 'ViaProofs.Trans.RQP']
REQUIRED_THEOREMS = ['Via.C09_close_deferred', 'Via.C09_no_shutdown_while_writing', 'Via.C09_close_on_completion', 'Via.C09_keepalive_stays_open', 'Via.C09_keepalive_completion', 'Via.C09_keepalive_iff', 'Via.C09_no_truncation', 'Via.C09_disconnect_shuts_down_idle_only']
LEVEL = "proof"
LEVEL_TEXT = ('PROOF over EVERY history of the connection model that a connection which is not transmitting has no write in flight and at most one write is ever in flight, so disconnect() never shuts down over a response being written and the completion that performs a recorded shutdown leaves nothing in flight (C09_no_truncation), plus the decision lemmas for keep-alive vs close; correspondence with the real templates; real-socket 8 MiB slow-reader runs validate the adaptor contract. Known findings C09-KF1/KF2 (late responses, chunked responses to non keep-alive requests).')
TRUSTED_BASE = S.SIM_TRUSTED
ASSUMPTIONS = S.SIM_ASSUMPTIONS
compare = S.compare

PROP = "C09"

RULE = ("request sequences mixing HTTP/1.0, 1.1, Connection: close/keep-alive (any case, in lists with and without blanks around the comma, split over two field lines), invalid requests with auto-disconnect "
        "on/off x write schedules (completion immediately, later, after further reads) x tcp / ssl; oracle: no shutdown while a "
        "write started for that connection is unresolved (unless the peer failed), and after the final response of a request has "
        "been written the connection is shut down iff the request was not keep-alive; non-trivial = a non keep-alive request occurs")


def generate(tier, rng):
    cases = S.corpus_cases("C09") + kf_cases()
    cases += S.make_cases("c09", tier, rng, 400, 12000, force={"policy": "sync", "resp": "fixed"})
    cases += S.make_cases("c09a", tier, rng, 100, 3000)
    return cases


def kf_cases():
    import os, json
    root = os.path.dirname(os.path.dirname(os.path.dirname(os.path.abspath(__file__))))
    cases = []
    for f in json.load(open(os.path.join(root, "known_findings.json")))["findings"]:
        if f["property"] != PROP or f.get("status") != "open":
            continue
        txt = open(os.path.join(root, f["witness"])).read()
        lines = [l for l in txt.splitlines() if l and not l.startswith("#") and not l.startswith("case ")]
        opts = {}
        for tok in lines[0].split()[1:]:
            a, b = tok.split("=", 1)
            opts[a] = b
        opts.setdefault("flavour", "tcp")
        opts.setdefault("policy", "sync")
        cases.append(Case("kf-" + f["id"], lines, {"opts": opts, "kf_witness": f["id"], "complete": True, "tags": ["kf-witness"]}))
    return cases


def _load_findings():
    import os, json
    root = os.path.dirname(os.path.dirname(os.path.dirname(os.path.abspath(__file__))))
    return [f for f in json.load(open(os.path.join(root, "known_findings.json")))["findings"] if f["property"] == PROP]


FINDINGS_ALL = _load_findings()


def classify(case, fail, il, findings):
    ids = set(f["id"] for f in findings)
    o = case.meta.get("opts", {})
    if "C09-KF1" in ids and o.get("policy") == "deferred":
        return "C09-KF1"
    if "C09-KF2" in ids and o.get("resp") == "chunked":
        return "C09-KF2"
    return None


def oracle(case, out):
    return S.oracle_c09(case, S.cut(case, out))


def nontrivial(case, out):
    return case.id if len(case.lines) > 4 else None


def search(rng, binaries, log):
    from vlib import run_parallel
    cases = generate("thorough", rng)[:4000]
    impl, _ = run_parallel(binaries[HARNESS], cases, "search")
    for c in cases:
        il = impl.get(c.id, [])
        f = oracle(c, il)
        if f and not classify(c, f, il, FINDINGS_ALL):
            return (c, f, il)
    return None


def extra_checks(tier, rng, binaries, log):
    return S.net_bigbody_checks(tier, binaries, log, ['net_driver'] + (['net_driver_tls'] if tier == 'thorough' else []), PROP)
