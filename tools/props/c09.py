"""C09 — connections close exactly when HTTP says so, never before the response is out."""
import simcommon as S
import gen_sim
from vlib import Case, hx

HARNESS = "sim_driver"
LEAN_MODULES = ["ViaProofs.C09"]
LEMMA_MODULES = ['ViaProofs.ConnLemmas', 'ViaProofs.ConnWrites', 'ViaProofs.Trans.MHA', 'ViaProofs.Trans.RQP', 'ViaProofs.Trans.RQ', 'ViaProofs.Trans.RR']
REQUIRED_THEOREMS = ['Via.C09_close_deferred', 'Via.C09_no_shutdown_while_writing', 'Via.C09_close_on_completion', 'Via.C09_keepalive_stays_open', 'Via.C09_keepalive_completion', 'Via.C09_keepalive_iff', 'Via.C09_no_truncation', 'Via.C09_disconnect_shuts_down_idle_only']
LEVEL = "proof"
LEVEL_TEXT = ('PROOF over EVERY history of the connection model that a connection which is not transmitting has no write in flight and at most one write is ever in flight, so disconnect() never shuts down over a response being written and the completion that performs a recorded shutdown leaves nothing in flight (C09_no_truncation), plus the decision lemmas for keep-alive vs close; the keep_alive() predicates of rx_request / rx_response and close_connection() are translated from the current source and proved equal to those of the model (Trans/RQP, Trans/MHA); correspondence with the real templates; real-socket 8 MiB slow-reader runs validate the adaptor contract. Known findings C09-KF1/KF2 (late responses, chunked responses to non keep-alive requests).')
TRUSTED_BASE = S.SIM_TRUSTED
ASSUMPTIONS = S.SIM_ASSUMPTIONS
compare = S.compare

PROP = "C09"

RULE = ("request sequences mixing HTTP/1.0, 1.1, Connection: close/keep-alive (any case, in lists with and without blanks around the comma, split over two field lines), invalid requests with auto-disconnect "
        "on/off x write schedules (completion immediately, later, after further reads) x tcp / ssl; oracle: no shutdown while a "
        "write started for that connection is unresolved (unless the peer failed), and after the final response of a request has "
        "been written the connection is shut down iff the request was not keep-alive; non-trivial = a non keep-alive request occurs")


def generate(tier, rng):
    cases = S.corpus_cases("C09") + kf_cases()
    cases += S.make_cases("c09", tier, rng, 400, 12000, force={"policy": "sync", "resp": "fixed"})
    cases += S.make_cases("c09a", tier, rng, 100, 3000)
    # the one refusal of a COMPLETE, otherwise well-formed request: HTTP/1.1 without Host.  The library's 400 answers a
    # request whose persistence is known: the connection is closed after it iff the request said `Connection: close`
    for i in range(24 if tier == "quick" else 400):
        close = rng.chance(1, 2)
        conn = rng.choice([b"close", b"Close", b"keep-alive, close", b"TE,close"]) if close else rng.choice([b"keep-alive", b"TE"])
        method = rng.choice([b"GET", b"POST", b"DELETE"])
        hdrs = [(b"Connection", conn)]
        if method == b"POST":
            hdrs.append((b"Content-Length", b"0"))
        line, o = gen_sim.server_line(rng, {"policy": "sync", "resp": "fixed", "invh": 0, "autodisc": 0, "filter": "all"})
        lines = [line, "accept"]
        if o["flavour"] == "ssl":
            lines.append("hs c0 ok")
        data = gen_sim.req(method, b"/x", headers=hdrs)
        for part in gen_sim.split_reads(rng, data):
            lines.append("read c0 " + hx(part))
        lines += ["wdone c0", "wdone c0", "state"]
        cases.append(Case("c09-nohost-%d" % i, lines, {"opts": o, "nohost_close": close, "tags": ["nohost-close" if close else "nohost-keep"]}))
    # auto_disconnect concerns invalid requests only: a valid keep-alive request that expects a 100 Continue gets it, sends
    # its body, is answered, and the connection stays open
    for i in range(16 if tier == "quick" else 300):
        line, o = gen_sim.server_line(rng, {"policy": "sync", "resp": "fixed", "invh": 0, "autodisc": 1, "conth": 0, "filter": "all",
                                            "chunkh": 0})
        lines = [line, "accept"]
        if o["flavour"] == "ssl":
            lines.append("hs c0 ok")
        framing = rng.choice(["cl", "chunked"])
        hdrs = [gen_sim.HOST, (b"Expect", b"100-continue")]
        if framing == "cl":
            head = gen_sim.req(b"POST", b"/e", headers=hdrs + [(b"Content-Length", b"4")])
            body = b"body"
        else:
            head = gen_sim.req(b"POST", b"/e", headers=hdrs + [(b"Transfer-Encoding", b"chunked")])
            body = b"4\r\nbody\r\n0\r\n\r\n"
        lines += ["read c0 " + hx(head), "wdone c0", "read c0 " + hx(body), "wdone c0", "wdone c0", "state"]
        cases.append(Case("c09-expect-ad-%d" % i, lines, {"opts": o, "expect_autodisc": True, "tags": ["expect-autodisc"]}))
    return cases


def kf_cases():
    import os, json
    root = os.path.dirname(os.path.dirname(os.path.dirname(os.path.abspath(__file__))))
    cases = []
    for f in json.load(open(os.path.join(root, "known_findings.json")))["findings"]:
        if f["property"] != PROP or f.get("status") != "open":
            continue
        txt = open(os.path.join(root, f["witness"])).read()
        lines = [l for l in txt.splitlines() if l and not l.startswith("#") and not l.startswith("case ")]
        opts = {}
        for tok in lines[0].split()[1:]:
            a, b = tok.split("=", 1)
            opts[a] = b
        opts.setdefault("flavour", "tcp")
        opts.setdefault("policy", "sync")
        cases.append(Case("kf-" + f["id"], lines, {"opts": opts, "kf_witness": f["id"], "complete": True, "tags": ["kf-witness"]}))
    return cases


def _load_findings():
    import os, json
    root = os.path.dirname(os.path.dirname(os.path.dirname(os.path.abspath(__file__))))
    return [f for f in json.load(open(os.path.join(root, "known_findings.json")))["findings"] if f["property"] == PROP]


FINDINGS_ALL = _load_findings()


def classify(case, fail, il, findings):
    ids = set(f["id"] for f in findings)
    o = case.meta.get("opts", {})
    if "C09-KF1" in ids and o.get("policy") == "deferred":
        return "C09-KF1"
    if "C09-KF2" in ids and o.get("resp") == "chunked":
        return "C09-KF2"
    return None


def oracle(case, out):
    r = S.oracle_c09(case, S.cut(case, out))
    if r is None and case.meta.get("nohost_close") is not None:
        wrote = any(l.startswith("io wire c0") for l in out)
        shut = any(l.startswith("io shutdown c0") for l in out)
        if wrote and case.meta["nohost_close"] and not shut:
            return ("c0: an HTTP/1.1 request without Host that carried `Connection: close` was answered (400) and the connection "
                    "was left open")
        if wrote and not case.meta["nohost_close"] and shut:
            return "c0: a keep-alive HTTP/1.1 request without Host was answered (400) and the connection was closed"
    if r is None and case.meta.get("expect_autodisc"):
        if any(l.startswith("io shutdown c0") for l in out):
            return ("c0: a valid keep-alive request with `Expect: 100-continue` was shut down by a server with auto_disconnect on "
                    "(auto_disconnect concerns invalid requests only)")
    return r


def nontrivial(case, out):
    return case.id if len(case.lines) > 4 else None


def search(rng, binaries, log):
    from vlib import run_parallel
    cases = generate("thorough", rng)[:4000]
    impl, _ = run_parallel(binaries[HARNESS], cases, "search")
    for c in cases:
        il = impl.get(c.id, [])
        f = oracle(c, il)
        if f and not classify(c, f, il, FINDINGS_ALL):
            return (c, f, il)
    return None


def extra_checks(tier, rng, binaries, log):
    return S.net_bigbody_checks(tier, binaries, log, ['net_driver'] + (['net_driver_tls'] if tier == 'thorough' else []), PROP)
