"""C08 — what the encoders produce, the library's own receivers accept unchanged."""
from vlib import Case, hx
import gen_http as G

HARNESS = "rx_driver"
LEAN_MODULES = ["ViaProofs.C08", "ViaProofs.Roundtrip", "ViaProofs.Trans.EndToEnd"]
LEMMA_MODULES = ['ViaProofs.Trans.RL', 'ViaProofs.Trans.SL', 'ViaProofs.Trans.FL', 'ViaProofs.Trans.CH', 'ViaProofs.Trans.MH', 'ViaProofs.Trans.CK', 'ViaProofs.Trans.RQ', 'ViaProofs.Trans.RR', 'ViaProofs.Trans.RS', 'ViaProofs.Trans.MHA', 'ViaProofs.Trans.RQP', 'ViaProofs.Trans.ENC']
REQUIRED_THEOREMS = ['Via.hex_roundtrip', 'Via.dec_roundtrip', 'Via.std_names_parse', 'Via.own_headers_parse', 'Via.chunk_header_roundtrip',
                     'Via.RT.requestLine_roundtrip', 'Via.RT.headerLine_roundtrip', 'Via.RT.headers_roundtrip', 'Via.RT.request_roundtrip',
                     'Via.RT.statusLine_roundtrip', 'Via.RT.response_roundtrip', 'Via.RT.response_roundtrip_nocontent',
                     'Via.RT.chunk_roundtrip', 'Via.RT.lastChunk_roundtrip', 'Via.RT.resp_chunked_head', 'Via.RT.resp_chunk_received',
                     'Via.RT.resp_last_chunk_received', 'Via.RT.req_chunked_head', 'Via.RT.req_chunk_received',
                     'Via.RT.req_chunk_concatenated', 'Via.RT.req_last_chunk_concatenated',
                     'Via.RT.source_request_roundtrip', 'Via.RT.source_response_roundtrip', 'Via.RT.source_chunk_roundtrip', 'Via.RT.source_lastChunk_roundtrip']
LEVEL = "proof"
LEVEL_TEXT = ('PROOF of the message-level round trips on the model (ViaProofs/Roundtrip.lean): for EVERY method / target / version / status / reason / list of header lines / body / chunk size / extension / trailer list that meets the stated validity conditions and every receiver configuration whose limits admit them, what tx_request::message, tx_response::message, chunk_header::to_string and last_chunk::to_string produce is received by request_receiver / response_receiver / rx_chunk as ONE valid message with exactly those components, leaving later bytes unread; plus hex/decimal number round trips and acceptance of every header name the library defines (regenerated table). Both sides are tied to the source by translation: the encoders (ViaGen/ENC, Trans/ENC) and the receivers (ViaGen/RR, RS, CK, Trans/*) are translated from the current tree and proved equal to the model, and Trans/EndToEnd restates the round trips on the translated functions (source_request_roundtrip, source_response_roundtrip, source_chunk_roundtrip, source_lastChunk_roundtrip); in addition real encoder output is looped back through the real receivers.')
RULE = ("requests / responses / chunks / last-chunks built through tx_request, tx_response, chunk_header and last_chunk from valid "
        "components (all 8 method ids and arbitrary upper-case methods, targets, versions, every header id of the enumeration "
        "and arbitrary token names, values without line breaks, bodies, chunk sizes incl. hex-width edges, extensions, trailers) "
        "and fed to a receiver whose limits admit them; the expected start line, header map, framing and payload follow from "
        "the components; messages whose Content-Length the application states itself next to fields that only mention a framing "
        "header in their name or value; hex/dec number round trips; distinct = distinct component tuple; all are non-trivial")
TRUSTED_BASE = ["tools/cxx2lean.py + cxx2lean_rx.py + cxx2lean_enc.py (translator, from the current C++ into Lean, of the parse_char / parse state machines, message_headers::parse, rx_chunk::parse, rx_request / rx_response::parse, request_receiver / response_receiver::receive + clear, the header look-ups content_length / is_chunked / close_connection / expect_continue, the predicates keep_alive / missing_host_header / expect_continue / is_head / is_trace, and the encoders incl. are_headers_split and tx_response::is_valid; the model is proved equal to the translation in ViaProofs/Trans; mapped by name, not translated: std::unordered_map::find, strtol-based from_dec_string / from_hex_string, stringstream-based to_hex_string, std::string::find, std::transform(tolower))", "Lean 4.33 kernel", "axioms: propext, Classical.choice, Quot.sound at most",
                "tools/extract.py (header name tables, reason phrases, method names re-extracted every run)",
                "rx_driver + via_model driver"]
ASSUMPTIONS = ["valid components: method upper-case within the limit, target without blanks/line ends, token header names, values "
               "without CR/LF and without leading blanks, status within the limit, reason without line ends"]

NHDR = 48

# header fields that mention a framing header without being one
DECOYS = [(b"X-Upload-Content-Length", b"2000000"), (b"Access-Control-Request-Headers", b"Content-Length, Content-Type"),
          (b"X-Original-Content-Length", b"7"), (b"Vary", b"Transfer-Encoding"), (b"X-Note", b"see Content-Length: below"),
          (b"Access-Control-Expose-Headers", b"Transfer-Encoding"), (b"X-Transfer-Encoding", b"none")]


def expected_hdrs(pairs):
    return G.hdr_map_str([(n.lower(), v) for n, v in pairs])[0]


def generate(tier, rng):
    quick = tier == "quick"
    cases = []
    n = 0
    cfg = G.REQ_CFGS["srv"]
    rcfg = G.RESP_CFGS["cli"]
    # --- requests
    for i in range(1500 if quick else 8000):
        use_id = rng.chance(1, 2)
        mid = rng.below(8)
        method = rng.bytes(rng.range(1, 8), G.UPPER)
        mname = [b"OPTIONS", b"GET", b"HEAD", b"POST", b"PUT", b"DELETE", b"TRACE", b"CONNECT"][mid] if use_id else method
        if mname in (b"TRACE", b"HEAD"):
            continue
        target = b"/" + rng.bytes(rng.range(0, 30), G.VALCH)
        if rng.chance(1, 6):
            # the names of the framing headers are ordinary text in a request target
            target = rng.choice([b"/rfc7230/Content-Length.txt", b"/wiki/Transfer-Encoding?action=edit", b"/Content-Length",
                                 b"/a?Transfer-Encoding=chunked", b"/docs/Host/Expect#Content-Length:"]) + rng.bytes(rng.range(0, 4), G.VALCH)
        version = rng.choice([b"11", b"10", b"12"])
        pairs = [(b"Host", b"h")]
        ids = []
        for _ in range(rng.range(0, 4)):
            hid = rng.below(NHDR)
            if hid in (5, 40, 16, 14, 1):   # transfer-encoding, content-length, host, expect, connection: framing-relevant
                continue
            ids.append((hid, rng.bytes(rng.range(0, 12), G.VALCH + b" ").strip()))
        named = [(rng.bytes(rng.range(1, 10), G.NAMECH + b"!#$%&'*+^`|~"), rng.bytes(rng.range(0, 12), G.VALCH + b" ").strip())
                 for _ in range(rng.range(0, 3))]
        named = [(a, b) for a, b in named if a.lower() not in (b"content-length", b"transfer-encoding", b"host", b"expect", b"connection")
                 and b"content-length" not in a.lower() and b"transfer-encoding" not in a.lower()]
        body = rng.bytes(rng.choice([0, 1, 10, 300]))
        own = None
        if rng.chance(1, 5):
            # the application states the (correct) Content-Length itself, next to fields that merely MENTION a framing
            # header: as the tail of their name or inside their value, before or after the real one
            own = rng.choice(["decoy-first", "decoy-last", "alone"])
            decoys = [rng.choice(DECOYS) for _ in range(rng.range(1, 2))] if own != "alone" else []
            real = [(b"Content-Length", b"%d" % len(body))]
            named = named + (decoys + real if own == "decoy-first" else real + decoys)
        args = ["encfeed-req"]
        args.append("mid=%d" % mid if use_id else "m=" + hx(method))
        args += ["u=" + hx(target), "v=" + hx(version), "hs=" + hx(b"Host: h\r\n")]
        if ids:
            args.append("addid=" + ",".join("%d:%s" % (a, hx(b)) for a, b in ids))
        if named:
            args.append("add=" + ",".join("%s:%s" % (hx(a), hx(b)) for a, b in named))
        args.append("b=" + hx(body))
        cases.append(Case("c08-%d" % n, [cfg.new_line(), " ".join(args)],
                          {"kind": "req", "method": mname, "target": target, "version": version, "ids": ids, "named": named,
                           "body": body, "own": own, "tags": ["req"] + (["req-own-" + own] if own else [])}))
        n += 1
    # --- responses (fixed length)
    for i in range(1500 if quick else 8000):
        st = rng.choice([200, 201, 404, 500, 301, 299, 599, 999, 65534])
        custom = rng.chance(1, 3)
        reason = rng.bytes(rng.range(1, 12), G.VALCH + b" ").strip() if custom else None
        if custom and not reason:
            reason = b"R"
        if custom and rng.chance(1, 4):
            reason = rng.choice([b"Content-Length Required", b"Transfer-Encoding Not Supported", b"No Content-Length:", b"Bad Transfer-Encoding: x"])
        ids = []
        for _ in range(rng.range(0, 4)):
            hid = rng.below(NHDR)
            if hid in (5, 40, 1):
                continue
            ids.append((hid, rng.bytes(rng.range(0, 12), G.VALCH + b" ").strip()))
        body = rng.bytes(rng.choice([0, 1, 10, 300]))
        args = ["encfeed-resp", "st=%d" % st, "v=" + hx(rng.choice([b"11", b"10"]))]
        if custom:
            args.append("rs=" + hx(reason))
        if ids:
            args.append("addid=" + ",".join("%d:%s" % (a, hx(b)) for a, b in ids))
        own = None
        if rng.chance(1, 5):
            own = rng.choice(["decoy-first", "decoy-last", "alone"])
            decoys = [rng.choice(DECOYS)] if own != "alone" else []
            real = [(b"Content-Length", b"%d" % len(body))]
            named = decoys + real if own == "decoy-first" else real + decoys
            args.append("add=" + ",".join("%s:%s" % (hx(a), hx(b)) for a, b in named))
        args.append("b=" + hx(body))
        cases.append(Case("c08-%d" % n, [rcfg.new_line(), " ".join(args)],
                          {"kind": "resp", "status": st, "reason": reason, "ids": ids, "body": body,
                           "tags": ["resp"] + (["resp-own-" + own] if own else [])}))
        n += 1
    # --- chunked exchange with extension and trailers, through both receivers
    for i in range(1000 if quick else 5000):
        chunks = [(rng.bytes(rng.choice([1, 2, 15, 16, 17, 255, 256, 4095, 4096])), rng.bytes(rng.range(0, 6), G.VALCH) if rng.chance(1, 2) else b"")
                  for _ in range(rng.range(0, 3))]
        ext = rng.bytes(rng.range(0, 5), G.VALCH) if rng.chance(1, 2) else b""
        trailers = [(rng.bytes(rng.range(1, 8), G.NAMECH), rng.bytes(rng.range(0, 8), G.VALCH)) for _ in range(rng.range(0, 2))]
        side = rng.choice(["req", "resp"])
        lines = []
        if side == "req":
            lines.append(cfg.new_line(cc=0))
            lines.append("encfeed-req m=%s u=%s hs=%s chunked=1" % (hx(b"POST"), hx(b"/c"), hx(b"Host: h\r\nTransfer-Encoding: Chunked\r\n")))
        else:
            lines.append(rcfg.new_line())
            lines.append("encfeed-resp st=200 hs=%s chunked=1" % hx(b"Transfer-Encoding: Chunked\r\n"))
        for d, e in chunks:
            lines.append("encfeed-chunk d=%s ext=%s" % (hx(d), hx(e)))
        la = ["encfeed-last", "ext=" + hx(ext)]
        if trailers:
            la.append("add=" + ",".join("%s:%s" % (hx(a), hx(b)) for a, b in trailers))
        lines.append(" ".join(la))
        cases.append(Case("c08-%d" % n, lines, {"kind": "chunked", "side": side, "chunks": chunks, "ext": ext, "trailers": trailers,
                                                "tags": ["chunked-" + side]}))
        n += 1
    # --- numbers
    nums = [0, 1, 9, 10, 15, 16, 255, 256, 4095, 65535, 65536, 2**31 - 1, 2**31, 2**32, 2**63 - 1] + [rng.below(2**63) for _ in range(60 if quick else 2000)]
    lines = []
    exp = []
    for v in nums:
        lines += ["tohex %d" % v, "todec %d" % v]
    cases.append(Case("c08-num", lines, {"kind": "num", "nums": nums, "tags": ["num"]}))
    lines = ["hdrname %d" % i for i in range(NHDR)]
    cases.append(Case("c08-names", lines, {"kind": "names", "tags": ["names"]}))
    return cases


def oracle(case, out):
    k = case.meta.get("kind")
    if k is None:
        return None
    for l in out:
        if l.startswith("abort"):
            return "abort: " + l
    d = G.deliveries(out)
    m = case.meta
    if k == "req":
        names = [b"Cache-Control", b"Connection", b"Date", b"Pragma", b"Trailer", b"Transfer-Encoding", b"Upgrade", b"Via", b"Warning",
                 b"Accept", b"Accept-Charset", b"Accept-Encoding", b"Accept-Language", b"Authorization", b"Expect", b"From", b"Host",
                 b"If-Match", b"If-Modified-Since", b"If-None-Match", b"If-Range", b"If-Unmodified-Since", b"Max-Forwards",
                 b"Proxy-Authorization", b"Range", b"Referer", b"TE", b"User-Agent", b"Accept-Ranges", b"Age", b"ETag", b"Location",
                 b"Proxy-Authenticate", b"Retry-After", b"Server", b"Vary", b"WWW-Authenticate", b"Allow", b"Content-Encoding",
                 b"Content-Language", b"Content-Length", b"Content-Location", b"Content-MD5", b"Content-Range", b"Content-Type",
                 b"Expires", b"Last-Modified", b"extension-header"]
        pairs = [(b"Host", b"h")] + [(names[i], v) for i, v in m["ids"]] + list(m["named"])
        if not m.get("own"):
            pairs.append((b"Content-Length", b"%d" % len(m["body"])))
        early = m["version"] == b"10"
        conn = G.hdr_map_str([(a.lower(), b) for a, b in pairs])[1].get(b"connection", b"")
        exp = "VALID m=%s u=%s v=%s h=%s b=%s head=0 chunked=0 ka=%d" % (
            hx(m["method"]), hx(m["target"]), hx(m["version"]), expected_hdrs(pairs), hx(m["body"]),
            0 if early or b"close" in conn.lower() else 1)
        if d != [exp]:
            return "encoded request not received unchanged:\n expected %s\n got      %s" % ([exp], d)
    elif k == "resp":
        if len(d) != 1 or not d[0].startswith("VALID st=%d " % m["status"]):
            return "encoded response not received as one valid response: %s" % d
        if (" b=%s " % hx(m["body"])) not in d[0]:
            return "encoded response body differs: %s" % d
        if m["reason"] is not None and (" r=%s " % hx(m["reason"])) not in d[0]:
            return "encoded reason phrase differs: %s" % d
    elif k == "chunked":
        exp = []
        for dd, e in m["chunks"]:
            exp.append("CHUNK sz=%d ext=%s d=%s t=- last=0" % (len(dd), hx(e), hx(dd)))
        ts = G.hdr_map_str([(a.lower(), b) for a, b in m["trailers"]])[0]
        exp.append("CHUNK sz=0 ext=%s d=- t=%s last=1" % (hx(m["ext"]), ts))
        if len(d) < 1 or not d[0].startswith("VALID") or "chunked=1" not in d[0]:
            return "encoded chunked head not accepted: %s" % d[:1]
        if d[1:] != exp:
            return "encoded chunks not received unchanged:\n expected %s\n got      %s" % (exp, d[1:])
    elif k == "num":
        for i, v in enumerate(m["nums"]):
            if bytes.fromhex(out[2 * i]) != b"%x" % v or bytes.fromhex(out[2 * i + 1]) != b"%d" % v:
                return "number %d rendered as %s / %s" % (v, out[2 * i], out[2 * i + 1])
    return None


def nontrivial(case, out):
    return case.id


def search(rng, binaries, log):
    from vlib import run_parallel
    cases = generate("thorough", rng)
    impl, _ = run_parallel(binaries[HARNESS], cases, "search")
    for c in cases:
        il = impl.get(c.id, [])
        f = oracle(c, il)
        if f:
            return (c, f, il)
    return None
