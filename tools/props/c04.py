"""C04 — every message written to the wire is well-formed, correctly framed HTTP/1.1."""
import simcommon as S
import gen_sim
from vlib import Case, hx

HARNESS = "sim_driver"
LEAN_MODULES = ["ViaProofs.C04"]
LEMMA_MODULES = ['ViaProofs.ConnLemmas', 'ViaProofs.C13', 'ViaProofs.C08', 'ViaProofs.Roundtrip', 'ViaProofs.Trans.ENC']
REQUIRED_THEOREMS = ['Via.C04_head_shape', 'Via.C04_refused', 'Via.C04_framing_added', 'Via.C04_no_framing_when_no_content', 'Via.C04_chunk_wire', 'Via.C04_chunk_header_parses']
LEVEL = "proof"
LEVEL_TEXT = ('PROOF of encoder algebra (head shape = C13, framing added iff needed and permitted, chunk wire bytes, chunk header round trip) on an encoder model that is PROVED equal to a translation of the current encoder source (Trans/ENC), and of the round trips (what the encoders emit, the receivers of the library accept as exactly one message: Roundtrip, Trans/EndToEnd); the property itself (every byte written parses under an independent grammar) is judged on the bytes the REAL server and the REAL http_client hand to the adaptor, plus encoder-level chunk headers for sizes up to 2^63-1. Known finding C04-KF1 (framing headers detected by substring search).')
TRUSTED_BASE = S.SIM_TRUSTED
ASSUMPTIONS = S.SIM_ASSUMPTIONS
compare = S.compare

PROP = "C04"

RULE = ("connection histories covering every rejection class of requests (automatic 400/411/413/414/501, 405 for TRACE, 100 Continue), "
        "every send overload (no body, container, caller buffers), chunk / last-chunk with extension and trailers, router answers, "
        "x tcp / ssl x container; oracle: the bytes handed to the adaptor, concatenated per connection, parse as a sequence of "
        "well-formed, correctly framed HTTP/1.1 responses under an independent grammar; plus chunk headers from the encoder for sizes "
        "no simulated write can carry (hex-width edges up to 2^63-1, with extensions), judged by construction; non-trivial = at least one completed write")


def generate(tier, rng):
    cases = S.corpus_cases("C04") + kf_cases()
    cases += S.make_cases("c04", tier, rng, 350, 12000)
    cases += S.make_cases("c04d", tier, rng, 120, 4000, force={"policy": "deferred"})
    cases += S.make_cases("c04t", tier, rng, 30, 500, force={"policy": "sync", "trace": 1})
    return cases


def kf_cases():
    import os, json
    root = os.path.dirname(os.path.dirname(os.path.dirname(os.path.abspath(__file__))))
    cases = []
    for f in json.load(open(os.path.join(root, "known_findings.json")))["findings"]:
        if f["property"] != PROP or f.get("status") != "open":
            continue
        txt = open(os.path.join(root, f["witness"])).read()
        lines = [l for l in txt.splitlines() if l and not l.startswith("#") and not l.startswith("case ")]
        opts = {}
        for tok in lines[0].split()[1:]:
            a, b = tok.split("=", 1)
            opts[a] = b
        opts.setdefault("flavour", "tcp")
        opts.setdefault("policy", "sync")
        cases.append(Case("kf-" + f["id"], lines, {"opts": opts, "kf_witness": f["id"], "complete": True, "tags": ["kf-witness"]}))
    return cases


def _load_findings():
    import os, json
    root = os.path.dirname(os.path.dirname(os.path.dirname(os.path.abspath(__file__))))
    return [f for f in json.load(open(os.path.join(root, "known_findings.json")))["findings"] if f["property"] == PROP]


FINDINGS_ALL = _load_findings()


def classify(case, fail, il, findings):
    ids = set(f["id"] for f in findings)
    if "C04-KF1" in ids:
        for l in case.lines:
            if l.startswith("app-send") and " hs=" in l:
                hs = bytes.fromhex(l.split(" hs=")[1].split()[0]) if l.split(" hs=")[1].split()[0] != "-" else b""
                low = hs.lower()
                for key in (b"content-length", b"transfer-encoding"):
                    for ln in low.split(b"\r\n"):
                        if key in ln and not ln.startswith(key + b":"):
                            return "C04-KF1"
                    if key in low and key.title().replace(b"-l", b"-L").replace(b"-e", b"-E") not in hs:
                        return "C04-KF1"
    return None


def oracle(case, out):
    return S.oracle_c04(case, S.cut(case, out))


def nontrivial(case, out):
    return case.id if len(case.lines) > 4 else None


def search(rng, binaries, log):
    from vlib import run_parallel
    cases = generate("thorough", rng)[:4000]
    impl, _ = run_parallel(binaries[HARNESS], cases, "search")
    for c in cases:
        il = impl.get(c.id, [])
        f = oracle(c, il)
        if f and not classify(c, f, il, FINDINGS_ALL):
            return (c, f, il)
    return None


def _extra_checks_base(tier, rng, binaries, log):
    """chunk framing at the encoder, for sizes no simulated write can carry: `chunk_header(size, ext).to_string()` must be
    the hexadecimal size (no sign, no prefix, every digit), `;ext` when an extension is given, CRLF — judged by
    construction, and the same lines are given to the model driver (correspondence)."""
    import vlib
    res = []
    try:
        rx = binaries.get("rx_driver") or vlib.build_harness("rx_driver", log)
    except vlib.BuildError as e:
        return [(False, "rx_driver does not build against the current tree: " + str(e)[-300:], "build rx_driver", {})]
    sizes = [0, 1, 9, 10, 15, 16, 255, 256, 4095, 4096, 65535, 65536, 0xFFFFF, 0x100000, 0xFFFFFF, 0x1000000, 0xFFFFFFF,
             0x10000000, 0x12345678, 0x7FFFFFFF, 0x80000000, 0xFFFFFFFF, 0x100000000, 4000000000, 0xABCDEF012, 0xFFFFFFFFFF,
             0x7FFFFFFFFFFFFFFF]
    sizes += [rng.below(1 << rng.range(1, 62)) for _ in range(40 if tier == "quick" else 2000)]
    cases = []
    for k, n in enumerate(sizes):
        ext = rng.choice([b"", b"", b"x", b"name=val", b"a;b=c"])
        cases.append(Case("c04-enc-%d" % k, ["chunkhdr %d %s" % (n, hx(ext))], {"n": n, "ext": ext}))
    # the same headers built with the setters: on a default-constructed header, and on one that was used for another
    # chunk before and clear()ed (size 0 — the last chunk — included)
    for k, n in enumerate([0, 0, 1, 5, 16, 255, 0x1000, 0] + [rng.below(1 << rng.range(1, 40)) for _ in range(12 if tier == "quick" else 300)]):
        ext = rng.choice([b"", b"x", b"name=val"])
        if k % 2:
            prev = rng.choice([0, 5, n, 1234])
            line = "chunkhdr-set %d %s %d %s" % (n, hx(ext), prev, hx(rng.choice([b"", b"old=1"])))
        else:
            line = "chunkhdr-set %d %s" % (n, hx(ext))
        cases.append(Case("c04-encset-%d" % k, [line], {"n": n, "ext": ext}))
    impl, _ = vlib.run_parallel(rx, cases, "c04enc", jobs=4)
    model = {}
    import os
    if os.path.exists(vlib.model_binary()):
        model, _ = vlib.run_parallel(vlib.model_binary(), cases, "c04encm", jobs=4)
    bad = None
    diff = None
    for c in cases:
        out = impl.get(c.id) or []
        want = b"%x" % c.meta["n"] + (b";" + c.meta["ext"] if c.meta["ext"] else b"") + b"\r\n"
        got = bytes.fromhex(out[0]) if out and out[0] != "-" and all(ch in "0123456789abcdef" for ch in out[0]) else None
        # optional whitespace after the ';' that introduces the extension is allowed (RFC 7230 BWS)
        import re as _re
        norm = _re.sub(rb"^([0-9a-fA-F]+);[ \t]*", rb"\1;", got) if got is not None else None
        if norm != want:
            bad = bad or (c, "chunk_header(%d, %r).to_string() is %r; a chunk of that size must be announced as %r" % (
                c.meta["n"], c.meta["ext"], got, want))
        if model and model.get(c.id) != out:
            diff = diff or (c, "model and implementation differ on %s: impl %s model %s" % (c.lines[0], out, model.get(c.id)))
    if bad:
        res.append((False, bad[1], bad[0].script(), {}))
    elif diff:
        res.append((False, "correspondence (encoder): " + diff[1], diff[0].script(), {}))
    res.append((True, "", "", {"encoder_chunk_headers_checked": len(cases)}))
    return res


def extra_checks(tier, rng, binaries, log):
    """+ the REAL http_client (sim_driver client mode): see tools/clientsim.py"""
    import clientsim
    return _extra_checks_base(tier, rng, binaries, log) + clientsim.run(tier, rng.fork("client"), binaries, log, ['wire'])
