"""C04 — every message written to the wire is well-formed, correctly framed HTTP/1.1."""
import simcommon as S
import gen_sim
from vlib import Case, hx

HARNESS = "sim_driver"
LEAN_MODULES = ["ViaProofs.C04"]
LEMMA_MODULES = ['ViaProofs.ConnLemmas', 'ViaProofs.C13', 'ViaProofs.C08']
REQUIRED_THEOREMS = ['Via.C04_head_shape', 'Via.C04_refused', 'Via.C04_framing_added', 'Via.C04_no_framing_when_no_content', 'Via.C04_chunk_wire', 'Via.C04_chunk_header_parses']
LEVEL = "proof"
TRUSTED_BASE = S.SIM_TRUSTED
ASSUMPTIONS = S.SIM_ASSUMPTIONS
compare = S.compare

PROP = "C04"

RULE = ("connection histories covering every rejection class of requests (automatic 400/411/413/414/501, 405 for TRACE, 100 Continue), "
        "every send overload (no body, container, caller buffers), chunk / last-chunk with extension and trailers, router answers, "
        "x tcp / ssl x container; oracle: the bytes handed to the adaptor, concatenated per connection, parse as a sequence of "
        "well-formed, correctly framed HTTP/1.1 responses under an independent grammar; non-trivial = at least one completed write")


def generate(tier, rng):
    cases = S.corpus_cases("C04") + kf_cases()
    cases += S.make_cases("c04", tier, rng, 350, 12000)
    cases += S.make_cases("c04d", tier, rng, 120, 4000, force={"policy": "deferred"})
    cases += S.make_cases("c04t", tier, rng, 30, 500, force={"policy": "sync", "trace": 1})
    return cases


def kf_cases():
    import os, json
    root = os.path.dirname(os.path.dirname(os.path.dirname(os.path.abspath(__file__))))
    cases = []
    for f in json.load(open(os.path.join(root, "known_findings.json")))["findings"]:
        if f["property"] != PROP or f.get("status") != "open":
            continue
        txt = open(os.path.join(root, f["witness"])).read()
        lines = [l for l in txt.splitlines() if l and not l.startswith("#") and not l.startswith("case ")]
        opts = {}
        for tok in lines[0].split()[1:]:
            a, b = tok.split("=", 1)
            opts[a] = b
        opts.setdefault("flavour", "tcp")
        opts.setdefault("policy", "sync")
        cases.append(Case("kf-" + f["id"], lines, {"opts": opts, "kf_witness": f["id"], "complete": True, "tags": ["kf-witness"]}))
    return cases


def _load_findings():
    import os, json
    root = os.path.dirname(os.path.dirname(os.path.dirname(os.path.abspath(__file__))))
    return [f for f in json.load(open(os.path.join(root, "known_findings.json")))["findings"] if f["property"] == PROP]


FINDINGS_ALL = _load_findings()


def classify(case, fail, il, findings):
    ids = set(f["id"] for f in findings)
    if "C04-KF1" in ids:
        for l in case.lines:
            if l.startswith("app-send") and " hs=" in l:
                hs = bytes.fromhex(l.split(" hs=")[1].split()[0]) if l.split(" hs=")[1].split()[0] != "-" else b""
                low = hs.lower()
                for key in (b"content-length", b"transfer-encoding"):
                    for ln in low.split(b"\r\n"):
                        if key in ln and not ln.startswith(key + b":"):
                            return "C04-KF1"
                    if key in low and key.title().replace(b"-l", b"-L").replace(b"-e", b"-E") not in hs:
                        return "C04-KF1"
    return None


def oracle(case, out):
    return S.oracle_c04(case, S.cut(case, out))


def nontrivial(case, out):
    return case.id if len(case.lines) > 4 else None


def search(rng, binaries, log):
    from vlib import run_parallel
    cases = generate("thorough", rng)[:4000]
    impl, _ = run_parallel(binaries[HARNESS], cases, "search")
    for c in cases:
        il = impl.get(c.id, [])
        f = oracle(c, il)
        if f and not classify(c, f, il, FINDINGS_ALL):
            return (c, f, il)
    return None
