"""C02 — malformed or over-limit requests are never accepted, however fragmented."""
from vlib import Case, hx
import gen_http as G
from gen_http import Request, Header, Chunk

HARNESS = "rx_driver"
LEAN_MODULES = ["ViaProofs.C02"]
LEMMA_MODULES = ['ViaProofs.Frag.Lines', 'ViaProofs.Frag.Headers', 'ViaProofs.Frag.Compose', 'ViaProofs.C01', 'ViaProofs.C05', 'ViaProofs.Trans.RL', 'ViaProofs.Trans.FL', 'ViaProofs.Trans.CH', 'ViaProofs.Trans.MH', 'ViaProofs.Trans.CK', 'ViaProofs.Trans.RQ', 'ViaProofs.Trans.RR', 'ViaProofs.Trans.MHA', 'ViaProofs.Trans.RQP']
REQUIRED_THEOREMS = ['Via.C02_method_at_limit', 'Via.C02_method_beyond', 'Via.C02_uri_at_limit', 'Via.C02_uri_beyond', 'Via.C02_ws_before_target', 'Via.C02_content_length_invalid', 'Via.C02_content_length_too_large', 'Via.C02_content_length_at_limit', 'Via.C02_trace_with_body', 'Via.C02_trace_proposes_405', 'Via.C02_missing_host']
LEVEL = "proof"
LEVEL_TEXT = ("PROOF of the accept/reject decision at every limit value and of partition independence (via C01's fragmentation laws) on the model; translated parsers and request_receiver::receive (status selection 400 / 405 / 411 / 413 / 414 / 501) as C01; differential correspondence + by-construction verdicts for one-violation mutants (incl. as second message on a receiver, all chunk splits at the content limit). The 411 class is read-dependent by nature and checked only where a body byte shares the read with the end of the head.")
RULE = ("requests obtained from a well-formed one by ONE violating change of a known class (method/target length, version "
        "token, whitespace run, header-name byte, line/count/total limits, missing Host, Content-Length syntax/size, chunk "
        "size syntax/size, chunk terminator, bare LF under strict, TRACE with body) with the expected status attached by "
        "construction, plus the at-limit twin that must be accepted; x partitions (whole, byte-wise, every single cut, "
        "structural cuts, cut right after the offending byte) x configurations; non-trivial = more than one read; "
        "distinct = distinct (class, config, bytes, partition)")
TRUSTED_BASE = ["tools/cxx2lean.py + cxx2lean_rx.py + cxx2lean_enc.py (translator, from the current C++ into Lean, of the parse_char / parse state machines, message_headers::parse, rx_chunk::parse, rx_request / rx_response::parse, request_receiver / response_receiver::receive + clear, the header look-ups content_length / is_chunked / close_connection / expect_continue, the predicates keep_alive / missing_host_header / expect_continue / is_head / is_trace, and the encoders incl. are_headers_split and tx_response::is_valid; the model is proved equal to the translation in ViaProofs/Trans; mapped by name, not translated: std::unordered_map::find, strtol-based from_dec_string / from_hex_string, stringstream-based to_hex_string, std::string::find, std::transform(tolower))", "Lean 4.33 kernel", "axioms: propext, Classical.choice, Quot.sound at most",
                "rx_driver harness + via_model driver", "strtol modelled as exact conversion with overflow -> -1"]
ASSUMPTIONS = ["411 Length Required is inherently read-dependent (a head followed by nothing is a complete body-less request); "
               "it is checked only where body bytes share the read with the end of the head",
               "the 405 answer to TRACE at server level is checked by the C04 sim checks; here the receiver's proposed code is checked"]


def base_request(cfgname, rng, kind="plain"):
    hs = [Header(b"Host", [b"a"])]
    if kind == "cl":
        return Request(b"POST", b"/p", b"11", hs + [Header(b"Content-Length", [b"3"])], body=b"abc")
    if kind == "chunked":
        return Request(b"POST", b"/c", b"11", hs + [Header(b"Transfer-Encoding", [b"chunked"])], chunks=[Chunk(b"abcd")])
    return Request(b"GET", b"/", b"11", hs)


def variants(cfgname, rng):
    """yield (class, bytes, expected first result, maxc, maxk, offending offset or None)"""
    cfg = G.REQ_CFGS[cfgname]
    ok = "VALID"
    # 1 method length
    for n, exp in ((cfg.b, ok), (cfg.b + 1, "INVALID code=501")):
        r = base_request(cfgname, rng)
        r.method = rng.bytes(n, G.UPPER)
        if r.method in (b"TRACE", b"HEAD"):
            r.method = b"Z" * n
        yield ("method-len", r.render(), exp, None, None, n if exp != ok else None)
    # 2 target length
    for n, exp in ((cfg.a, ok), (cfg.a + 1, "INVALID code=414")):
        if n > 300 and exp == ok and rng.chance(1, 2):
            pass
        r = base_request(cfgname, rng)
        r.target = b"/" + b"t" * (n - 1)
        yield ("target-len", r.render(), exp, None, None, len(r.method) + 1 + n if exp != ok else None)
    # 3 version token
    for bad in (b"HTTQ/1.1", b"HTTP/x.1", b"HTTP/1.y", b"HTTP1.1", b"HTTP/11", b"http/1.1", b"HTTP/1.1x"):
        data = b"GET / " + bad + b"\r\nHost: a\r\n\r\n"
        yield ("version", data, "INVALID code=400", None, None, None)
    # 4 whitespace runs
    for n, exp in ((cfg.ws, ok), (cfg.ws + 1, "INVALID code=400")):
        r = base_request(cfgname, rng)
        r.sp1 = b" " * n
        yield ("ws-uri", r.render(), exp, None, None, None)
        r = base_request(cfgname, rng)
        r.sp2 = b" \t"[:1] * n
        yield ("ws-version", r.render(), exp, None, None, None)
        r = base_request(cfgname, rng)
        r.headers = [Header(b"Host", [b"a"], lead=b" " * n)]
        if r.headers[0].wire_len() <= cfg.ll:
            yield ("ws-header", r.render(), exp, None, None, None)
    # 5 illegal header-name byte
    for bad in (b" ", b"@", b"(", b"\x01", b"\x80", b"\xff", b"\t", b"\x00", b'"'):
        pos = rng.range(0, 2)
        name = b"Ho"[:pos] + bad + b"st"
        data = b"GET / HTTP/1.1\r\n" + name + b": a\r\nHost: a\r\n\r\n"
        yield ("name-byte", data, "INVALID code=400", None, None, len(b"GET / HTTP/1.1\r\n") + pos + 1)
    # 6 header line length (whole folded field counts)
    for n, exp in ((cfg.ll, ok), (cfg.ll + 1, "INVALID code=400")):
        val = b"v" * (n - len(b"X-L: \r\n"))
        if len(val) + 3 <= cfg.hl - 5:
            r = base_request(cfgname, rng)
            r.headers = [Header(b"Host", [b"a"]), Header(b"X-L", [val])]
            yield ("line-len", r.render(), exp, None, None, None)
    # 7 header count
    for n, exp in ((cfg.hn, ok), (cfg.hn + 1, "INVALID code=400")):
        r = base_request(cfgname, rng)
        r.headers = [Header(b"Host", [b"a"])] + [Header(b"h", [b""], lead=b"") for _ in range(n - 1)]
        if sum(len(h.name) + len(h.value()) for h in r.headers) <= cfg.hl:
            yield ("hdr-count", r.render(), exp, None, None, None)
            r2 = base_request(cfgname, rng)
            r2.headers = [Header(b"Host", [b"a"])] + [Header(b"%c" % (97 + i % 26) + (b"%d" % i), [b""], lead=b"") for i in range(n - 1)]
            if sum(len(h.name) + len(h.value()) for h in r2.headers) <= cfg.hl:
                yield ("hdr-count-distinct", r2.render(), exp, None, None, None)
    # 8 total header size
    for n, exp in ((cfg.hl, ok), (cfg.hl + 1, "INVALID code=400")):
        # Host: a (5) + k lines "x: vvv.."
        remaining = n - 5
        hs = [Header(b"Host", [b"a"])]
        while remaining > 0 and len(hs) < cfg.hn:
            room = min(remaining, cfg.ll - 7)
            if room < 2:
                break
            hs.append(Header(b"x", [b"v" * (room - 1)]))
            remaining -= room
        if remaining == 0:
            r = base_request(cfgname, rng)
            r.headers = hs
            yield ("hdr-total", r.render(), exp, None, None, None)
    # 9 missing Host
    yield ("no-host", b"GET / HTTP/1.1\r\nAccept: x\r\n\r\n", "INVALID code=400", None, None, None)
    yield ("empty-host", b"GET / HTTP/1.1\r\nHost:\r\n\r\n", "INVALID code=400", None, None, None)
    yield ("host-1.0", b"GET / HTTP/1.0\r\nAccept: x\r\n\r\n", ok, None, None, None)
    # 10 Content-Length
    for bad in (b"12a", b"-1", b"1 2", b"0x10", b"99999999999999999999", b"+5"):
        data = b"POST / HTTP/1.1\r\nHost: a\r\nContent-Length: " + bad + b"\r\n\r\nabc"
        yield ("cl-syntax", data, "INVALID code=400", None, None, None)
    for n, exp in ((10, ok), (11, "INVALID code=413")):
        data = b"POST / HTTP/1.1\r\nHost: a\r\nContent-Length: %d\r\n\r\n" % n + b"b" * n
        yield ("cl-size", data, exp, 10, None, None)
    # 11 chunk sizes
    chunk_ok = cfg.ll >= 30
    for n, exp in (((6, ok), (7, "INVALID code=400")) if chunk_ok else ()):
        r = base_request(cfgname, rng, "chunked")
        r.chunks = [Chunk(b"d" * n)]
        yield ("chunk-size", r.render(), exp, None, 6, None)
    # the concatenated body of a chunked request is limited by max_content_length whatever the division into chunks
    # (one chunk, first chunk alone over the limit, last chunk crossing it, many small ones)
    for n, exp in (((5, ok), (6, "INVALID code=413")) if chunk_ok else ()):
        for split in ([n], [3, n - 3], [1, n - 1], [n - 1, 1], [2, 2, n - 4], [1] * n):
            r = base_request(cfgname, rng, "chunked")
            r.chunks = [Chunk(bytes([97 + (j % 26)]) * k) for j, k in enumerate(split)]
            yield ("chunked-total", r.render(), exp, 5, None, None)
    # 12 chunk syntax
    for bad in () if not chunk_ok else (b"g\r\n", b"\r\n", b"4 \r\n", b"4x\r\n", b"00000000000000004\r\n", b"ffffffffffffffff\r\n", b";x\r\n", b"-4\r\n"):
        data = b"POST / HTTP/1.1\r\nHost: a\r\nTransfer-Encoding: chunked\r\n\r\n" + bad + b"abcd\r\n0\r\n\r\n"
        yield ("chunk-syntax", data, "INVALID code=400", None, None, None)
    for bad in () if not chunk_ok else (b"XX", b"\rX", b"X\n", b"\r\r\n", b"\r\r\r\n", b"\rX\n", b"\r\r"):
        data = b"POST / HTTP/1.1\r\nHost: a\r\nTransfer-Encoding: chunked\r\n\r\n4\r\nabcd" + bad + b"0\r\n\r\n"
        yield ("chunk-term", data, "INVALID code=400", None, None, None)
    # 13 bare LF under strict
    if cfg.strict and chunk_ok:
        yield ("lf-reqline", b"GET / HTTP/1.0\n\r\n", "INVALID code=400", None, None, None)
        yield ("lf-header", b"GET / HTTP/1.0\r\nA: b\n\r\n", "INVALID code=400", None, None, None)
        yield ("lf-chunkline", b"POST / HTTP/1.0\r\nTransfer-Encoding: chunked\r\n\r\n4\nabcd\r\n0\r\n\r\n", "INVALID code=400", None, None, None)
        yield ("lf-chunkdata", b"POST / HTTP/1.0\r\nTransfer-Encoding: chunked\r\n\r\n4\r\nabcd\n0\r\n\r\n", "INVALID code=400", None, None, None)
        yield ("lf-blank", b"GET / HTTP/1.0\r\n\n", "INVALID code=400", None, None, None)
        yield ("lf-blank", b"GET / HTTP/1.0\r\nA: b\r\n\n", "INVALID code=400", None, None, None)
        yield ("lf-chunkblank", b"POST / HTTP/1.0\r\nTransfer-Encoding: chunked\r\n\r\n0\r\n\n", "INVALID code=400", None, None, None)
        yield ("lf-chunkext", b"POST / HTTP/1.0\r\nTransfer-Encoding: chunked\r\n\r\n4;e\nabcd\r\n0\r\n\r\n", "INVALID code=400", None, None, None)
    # 14 TRACE
    if cfg.b < 5:
        return
    yield ("trace-body", b"TRACE / HTTP/1.1\r\nHost: a\r\nContent-Length: 3\r\n\r\nabc", "INVALID code=400", None, None, None)
    yield ("trace", b"TRACE / HTTP/1.1\r\nHost: a\r\n\r\n", "VALID405", None, None, None)


STRUCT_BYTES = [b"\r", b"\n", b" ", b":", b";", b"\t", b"0", b"a", b"A", b"\x00", b"\x80", b"=", b"\""]


def mutate(data, rng):
    """one edit of a well-formed request, biased towards the bytes around the line ends"""
    brk = [i for i in range(len(data)) if data[i:i + 1] in (b"\r", b"\n")]
    if brk and rng.chance(2, 3):
        i = min(len(data) - 1, max(0, rng.choice(brk) + rng.range(-1, 1)))
    else:
        i = rng.range(0, len(data) - 1)
    k = rng.range(0, 3)
    if k == 0:
        return data[:i] + data[i:i + 1] + data[i:], "dup"
    if k == 1:
        return data[:i] + data[i + 1:], "del"
    if k == 2:
        return data[:i] + rng.choice(STRUCT_BYTES) + data[i + 1:], "rep"
    return data[:i] + rng.choice(STRUCT_BYTES) + data[i:], "ins"


def invariance_cases(tier, rng, n0):
    """near-valid requests whose status nobody wrote down: the verdict of the implementation on the WHOLE byte string
    is the reference, and when that is a rejection every division into reads must reject in the same way"""
    cases = []
    quick = tier == "quick"
    n = n0
    bases = [
        b"GET /a HTTP/1.1\r\nHost: a\r\nX-A: b\r\n c\r\n\r\n",
        b"POST /p HTTP/1.1\r\nHost: a\r\nContent-Length: 3\r\n\r\nabc",
        b"POST /c HTTP/1.1\r\nHost: a\r\nTransfer-Encoding: chunked\r\n\r\n3\r\nabc\r\n2;e=f\r\nde\r\n0\r\nT: v\r\n\r\n",
        b"PUT /c HTTP/1.0\r\nTransfer-Encoding: chunked\r\n\r\n1\r\nx\r\n0\r\n\r\n",
    ]
    for cfgname in ("srv", "srvs", "mid", "mids"):
        cfg = G.REQ_CFGS[cfgname]
        for base in bases:
            for _ in range(6 if quick else 150):
                data, kind = mutate(base, rng)
                if rng.chance(1, 4):
                    data, k2 = mutate(data, rng)
                    kind += "+" + k2
                cutsets = [[c] for c in range(1, len(data))]
                if not quick:
                    cutsets += [[rng.range(1, len(data) - 1), rng.range(1, len(data) - 1)] for _ in range(40)]
                    cutsets.append(list(range(1, len(data))))
                cc = rng.choice([0, 1, 1])
                for cuts in cutsets:
                    parts = G.cuts_to_parts(data, cuts)
                    new = cfg.new_line(cont=rng.choice("sv"), cc=cc)
                    lines = [new, "feed " + hx(data), new] + G.feed_lines(parts)
                    cases.append(Case("c02-%d" % n, lines, {"class": "near-valid", "inv": True, "nparts": len(parts), "cc": cc,
                                                            "tags": ["near-valid", kind, cfgname]}))
                    n += 1
    return cases


def first_verdict(lines):
    """deliveries up to and including the first rejection"""
    got = G.deliveries(lines)
    res = []
    for g in got:
        res.append(g)
        if g.startswith("INVALID") or g.startswith("abort"):
            break
    return res


def invariance_oracle(case, out):
    # out: ok, <whole feed>, ok, <split feeds>
    idx = [i for i, l in enumerate(out) if l == "ok"]
    if any(l.startswith("abort") for l in out):
        return "the receiver crashed: " + [l for l in out if l.startswith("abort")][0]
    if len(idx) < 2:
        return None
    whole = first_verdict(out[idx[0] + 1:idx[1]])
    split = first_verdict(out[idx[1] + 1:])
    if not whole or not whole[-1].startswith("INVALID") or "code=411" in whole[-1]:
        return None      # accepted, incomplete, or the inherently read-dependent 411: not in this property's domain
    if case.meta.get("cc") == 0:
        # per-chunk delivery: the head of a chunked request is passed on before its chunks arrive
        whole = [g for g in whole if not (g.startswith("VALID") and "chunked=1" in g and " b=- " in g)]
        split = [g for g in split if not (g.startswith("VALID") and "chunked=1" in g and " b=- " in g)]
        whole = [g for g in whole if not g.startswith("CHUNK")]
        split = [g for g in split if not g.startswith("CHUNK")]
    if split != whole:
        return ("a request that is rejected when it arrives in one read (%s) is treated differently when it arrives in %d reads: %s"
                % ([g[:60] for g in whole], case.meta.get("nparts", 0), [g[:60] for g in split] or "never rejected"))
    return None


def generate(tier, rng):
    cases = []
    n = 0
    quick = tier == "quick"
    for cfgname in ("srv", "srvs", "tiny", "tinys", "mid", "mids"):
        cfg = G.REQ_CFGS[cfgname]
        for (cls, data, exp, maxc, maxk, off) in variants(cfgname, rng):
            if len(data) > 2000:
                modes = ["whole", "lines", "random"]
            else:
                modes = ["whole", "bytes", "lines", "struct"]
                if len(data) <= (120 if quick else 400):
                    modes.append("cut1")
                elif not quick:
                    modes.append("random")
            for cc in ((1,) if quick and cls not in ("chunked-total", "chunk-size") else (1, 0)):
                if cls == "chunked-total" and cc == 0:
                    continue
                for mode in modes:
                    plist = list(G.partitions(data, rng, mode, k=6))
                    if len(plist) > 160:
                        rng.shuffle(plist)
                        plist = plist[:160]
                    for parts in plist:
                        if len(parts) > 3000:
                            continue
                        lines = [cfg.new_line(cont=rng.choice("sv"), maxc=maxc or 1048576, maxk=maxk or 1048576, cc=cc)] + G.feed_lines(parts)
                        cases.append(Case("c02-%d" % n, lines, {"expect": exp, "class": cls, "nparts": len(parts), "cc": cc,
                                                                "tags": [cls, mode, cfgname]}))
                        n += 1
                # the same request as the SECOND message on the receiver (after a served request, or after a rejected one):
                # limits and strictness configured on the receiver must still apply after clear()
                if not quick or n % 3 == 0:
                    for pre_kind in ("valid", "invalid"):
                        pre = (b"GET /pre HTTP/1.1\r\nHost: a\r\n\r\n" if pre_kind == "valid" else b"BAD\r\n\r\n")
                        if len(pre) > cfg.ll or (pre_kind == "valid" and (cfg.a < 4 or cfg.hn < 1)):
                            continue
                        lines = [cfg.new_line(cont=rng.choice("sv"), maxc=maxc or 1048576, maxk=maxk or 1048576, cc=cc), "feed " + hx(pre)] + \
                            G.feed_lines(rng.choice(list(G.partitions(data, rng, rng.choice(["whole", "lines", "struct"]), k=3)) or [[data]]))
                        cases.append(Case("c02-%d" % n, lines, {"expect": exp, "class": cls, "nparts": 2, "cc": cc, "pre": pre_kind,
                                                                "tags": [cls, "second-message", cfgname]}))
                        n += 1
                if off is not None:
                    parts = G.cuts_to_parts(data, [off])
                    lines = [cfg.new_line(maxc=maxc or 1048576, maxk=maxk or 1048576, cc=cc)] + G.feed_lines(parts)
                    cases.append(Case("c02-%d" % n, lines, {"expect": exp, "class": cls, "nparts": len(parts), "cc": cc,
                                                            "tags": [cls, "after-offender", cfgname]}))
                    n += 1
    return cases + invariance_cases(tier, rng.fork("inv"), n)


def oracle(case, out):
    if case.meta.get("inv"):
        return invariance_oracle(case, out)
    exp = case.meta.get("expect")
    if exp is None:
        return None
    got = G.deliveries(out[1:])
    cls = case.meta.get("class")
    pre = case.meta.get("pre")
    if pre:
        # the first delivery belongs to the message sent before the one under test
        want = "VALID" if pre == "valid" else "INVALID"
        if not got or not got[0].startswith(want):
            return "class %s: the %s request sent first was not reported as %s: %s" % (cls, pre, want, [g[:60] for g in got[:2]])
        got = got[1:]
        if exp == "VALID405":
            return None
    if exp == "VALID":
        vs = [g for g in got if g.startswith("VALID")]
        if len(vs) != 1 or any(g.startswith("INVALID") for g in got):
            return "class %s: a request exactly at the limit must be accepted once, got %s" % (cls, [g[:60] for g in got])
        return None
    if exp == "VALID405":
        vs = [l for l in out if l.startswith("rx=VALID")]
        if len(vs) != 1 or "code=405" not in vs[0]:
            return "TRACE must be reported with the proposed status 405, got %s" % [l[:60] for l in out if l.startswith("rx=")]
        return None
    if case.meta.get("cc") == 0 and cls in ("chunk-size", "chunk-syntax", "chunk-term", "lf-chunkline", "lf-chunkdata", "lf-chunkext", "lf-chunkblank"):
        # per-chunk delivery: the head of a chunked request is passed on before its chunks arrive
        if got and got[0].startswith("VALID") and "chunked=1" in got[0] and " b=- " in got[0]:
            got = got[1:]
    if any(g.startswith("VALID") for g in got):
        return "class %s: the malformed request was reported to the application as valid: %s" % (cls, [g[:80] for g in got])
    inv = [g for g in got if g.startswith("INVALID")]
    if not inv:
        return "class %s: the malformed request was neither accepted nor rejected (%d reads): %s" % (cls, case.meta.get("nparts", 0), [g[:60] for g in got])
    if inv[0] != exp:
        return "class %s: rejected with %r, documented status is %r" % (cls, inv[0], exp)
    return None


def nontrivial(case, out):
    return case.id if case.meta.get("nparts", 0) > 1 else None


def search(rng, binaries, log):
    from vlib import run_parallel
    cases = generate("thorough", rng)
    impl, _ = run_parallel(binaries[HARNESS], cases, "search")
    for c in cases:
        il = impl.get(c.id, [])
        f = oracle(c, il)
        if f:
            return (c, f, il)
    return None
