"""C20 — a configured idle timeout actually closes silent connections."""
import os
import re
import subprocess
from vlib import Case
import vlib

HARNESS = "net_driver"
LEAN_MODULES = ["ViaProofs.C20"]
REQUIRED_THEOREMS = ["Via.C20_no_timer_in_source", "Via.C20_counterexample"]
LEVEL = "proof"
LEVEL_TEXT = ('COUNTER-EXAMPLE PROOF: under the extracted fact that the timeout reaches the socket only through SO_RCVTIMEO/SO_SNDTIMEO and no timer exists, no passage of time closes a connection in the model; confirmed on the real sockets (known finding C20-KF1). If a timer is added the obligation re-opens and the real-socket silence run becomes the oracle.')
RULE = ("real tcp_adaptor (and ssl_tcp_adaptor in the thorough tier) on loopback with set_timeout(300 ms): the peer falls silent "
        "after connect / mid request line / mid headers / mid body / between requests and waits timeout + margin for the "
        "server to close; an active connection exchanging a request every 100 ms must stay open; the model side is the "
        "extracted fact that the connection code has no timer (tools/extract.py) and the theorem that silence enables no "
        "transition; non-trivial = a silence point; distinct = distinct (point, flavour)")
TRUSTED_BASE = ["Lean 4.33 kernel", "axioms: none beyond propext / Quot.sound",
                "tools/extract.py (timer / setsockopt uses in comms/connection.hpp, comms/server.hpp, http_server.hpp, http_connection.hpp)",
                "net_driver: the real adaptors on loopback sockets; the kernel's and asio's behaviour is observed, not modelled"]
ASSUMPTIONS = ["time is not part of the model; the real-socket run is the oracle for the implementation",
               "scheduling margin: the peer waits 5x the timeout"]
POINTS = ["connect", "reqline", "headers", "body", "between"]
FINDINGS_ALL = []


def generate(tier, rng):
    return []


def oracle(case, out):
    return None


def classify(case, fail, il, findings):
    if any(f["id"] == "C20-KF1" for f in findings) and "never closed" in fail:
        return "C20-KF1"
    return None


def run_net(binary, args, timeout=60):
    r = subprocess.run([binary] + args, capture_output=True, text=True, timeout=timeout)
    m = re.search(r"^RESULT (.*)$", r.stdout, re.M)
    if not m:
        return None, r.stdout[-400:] + r.stderr[-400:]
    return dict(kv.split("=", 1) for kv in m.group(1).split() if "=" in kv), ""


def extra_checks(tier, rng, binaries, log):
    res = []
    variants = [("net_driver", "tcp")]
    if tier == "thorough":
        variants.append(("net_driver_tls", "tls"))
    points = POINTS if tier == "thorough" else ["headers", "between"]
    samples = []
    n = 0
    for (h, flavour) in variants:
        try:
            binary = binaries.get(h) or vlib.build_harness(h, log)
        except vlib.BuildError as e:
            res.append((False, "net_driver does not build: " + str(e)[-300:], "build", {}))
            continue
        for p in points + ["active"]:
            kv, err = run_net(binary, ["timeout", "ms=300", "point=" + p, "wait_ms=1500"])
            n += 1
            if kv is None:
                res.append((False, "net_driver failed to run: " + err, "timeout point=%s" % p, {}))
                continue
            samples.append({"flavour": flavour, "point": p, "closed": kv.get("closed"), "after_ms": kv.get("after_ms")})
            if p == "active":
                if kv.get("closed") != "0":
                    res.append((False, "an active connection was closed by the idle timeout (%s)" % flavour,
                                "net_driver timeout ms=300 point=active wait_ms=1500", {}))
            elif kv.get("closed") != "1":
                res.append((False, "silent connection (%s, point %s) never closed: still open %s ms after a 300 ms timeout" % (
                    flavour, p, kv.get("after_ms")), "net_driver timeout ms=300 point=%s wait_ms=1500   # %s" % (p, flavour), {}))
    res.append((True, "", "", {"evaluations": n, "distinct_nontrivial": max(2, n - len(variants)), "samples": samples}))
    return res
