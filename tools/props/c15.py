"""C15 — Expect: 100-continue is answered before the server waits for the body."""
import simcommon as S
import gen_sim
from vlib import Case, hx

HARNESS = "sim_driver"
LEAN_MODULES = ["ViaProofs.C15"]
LEMMA_MODULES = ['ViaProofs.Trans.RQ', 'ViaProofs.Trans.RR', 'ViaProofs.Trans.MHA', 'ViaProofs.Trans.RQP']
REQUIRED_THEOREMS = ['Via.C15_body_expect', 'Via.C15_chunk_expect', 'Via.C15_at_most_once', 'Via.C15_not_for_http10', 'Via.C15_reset', 'Via.C15_continue_keeps_connection']
LEVEL = "proof"
LEVEL_TEXT = ("PROOF of the receiver's decision logic (EXPECT_CONTINUE exactly when expected for Content-Length and chunked bodies, at most once per request, never for HTTP/1.0, reset between requests, 100 Continue keeps the connection); the receiver (request_receiver::receive, expect_continue()) as translated from the current source is proved equal to the model (Trans/RR, Trans/RQP, Trans/MHA); correspondence with the real server incl. a handler that rejects the expectation followed by further Expect requests.")
TRUSTED_BASE = S.SIM_TRUSTED
ASSUMPTIONS = S.SIM_ASSUMPTIONS
compare = S.compare

PROP = "C15"

RULE = ("requests with an Expect header (any case, inside lists; none; HTTP/1.0) x framing (Content-Length / chunked / none) x head and "
        "body in the same read or separate reads x expect-continue handler registered or not x chunk handler x consecutive requests "
        "on one connection, a handler that rejects the expectation with a final 417 followed by a further Expect request; oracle: in the operation whose read completes such a head, exactly one interim 100 Continue is "
        "written (or the handler is invoked once), none for HTTP/1.0 or without Expect; non-trivial = an Expect header occurs")


def generate(tier, rng):
    cases = S.corpus_cases("C15")
    n = 400 if tier == "quick" else 10000
    for i in range(n):
        # (auto_disconnect only concerns invalid requests: it must not change anything here)
        force = {"policy": rng.choice(["sync", "sync", "deferred"]), "resp": "fixed", "conth": rng.choice([0, 0, 1, 1, 2]), "invh": 0,
                 "filter": "all", "autodisc": rng.choice([0, 1])}
        line, o = gen_sim.server_line(rng, force)
        lines = [line, "accept"]
        if o["flavour"] == "ssl":
            lines.append("hs c0 ok")
        exp = []
        nreq = rng.range(1, 3)
        for j in range(nreq):
            version = rng.choice([b"1.1", b"1.1", b"1.0"]) if j == nreq - 1 else b"1.1"
            expect = rng.choice([b"100-continue", b"100-Continue", b"foo, 100-CONTINUE", None])
            framing = rng.choice(["cl", "chunked"])
            hdrs = [gen_sim.HOST]
            if expect:
                hdrs.append((b"Expect", expect))
            if j == nreq - 1 and version == b"1.1" and rng.chance(1, 3):
                hdrs.append((b"Connection", b"close"))
            if framing == "cl":
                hdrs.append((b"Content-Length", b"4"))
                head = gen_sim.req(b"POST", b"/e", version, hdrs)
                body = b"body"
            else:
                hdrs.append((b"Transfer-Encoding", b"chunked"))
                head = gen_sim.req(b"POST", b"/e", version, hdrs)
                body = b"4\r\nbody\r\n0\r\n\r\n"
            together = rng.chance(1, 3)
            kind = "expect" if (expect and version != b"1.0") else "none"
            # conth=2: the handler rejects the expectation with a final 417; a by-the-book client then withholds the
            # body and goes on with its next request on the same connection
            rejected = kind == "expect" and str(o["conth"]) == "2" and o["policy"] != "deferred"
            if rejected:
                together = False
            if together and framing == "cl":
                kind = "none"       # the complete body arrived with the head: nothing to wait for
            lines.append("read c0 " + hx(head + (body if together else b"")))
            exp.append((len(lines) - 1, 0, kind))
            lines.append("wdone c0")
            if rejected:
                continue
            if not together:
                lines.append("read c0 " + hx(body))
                if kind == "expect":
                    exp.append((len(lines) - 1, 0, "none"))
            if o["policy"] == "deferred":
                lines.append("app-send c0 st=200 b=6f6b")
            lines.append("wdone c0")
        lines.append("state")
        cases.append(Case("c15-%d" % i, lines, {"opts": o, "expect15": exp, "answered15": nreq,
                                                "tags": [o["policy"], "conth%s" % o["conth"]]}))
    return cases


def kf_cases():
    import os, json
    root = os.path.dirname(os.path.dirname(os.path.dirname(os.path.abspath(__file__))))
    cases = []
    for f in json.load(open(os.path.join(root, "known_findings.json")))["findings"]:
        if f["property"] != PROP or f.get("status") != "open":
            continue
        txt = open(os.path.join(root, f["witness"])).read()
        lines = [l for l in txt.splitlines() if l and not l.startswith("#") and not l.startswith("case ")]
        opts = {}
        for tok in lines[0].split()[1:]:
            a, b = tok.split("=", 1)
            opts[a] = b
        opts.setdefault("flavour", "tcp")
        opts.setdefault("policy", "sync")
        cases.append(Case("kf-" + f["id"], lines, {"opts": opts, "kf_witness": f["id"], "complete": True, "tags": ["kf-witness"]}))
    return cases


def _load_findings():
    import os, json
    root = os.path.dirname(os.path.dirname(os.path.dirname(os.path.abspath(__file__))))
    return [f for f in json.load(open(os.path.join(root, "known_findings.json")))["findings"] if f["property"] == PROP]


FINDINGS_ALL = _load_findings()


def classify(case, fail, il, findings):
    return None


def oracle(case, out):
    f = S.oracle_c15(case, S.cut(case, out))
    if f:
        return f
    n = case.meta.get("answered15")
    if n is not None and not case.meta.get("kf") and case.meta.get("opts", {}).get("conth") in (0, "0"):
        # with the automatic 100 Continue every request's body is then received and the request delivered and answered
        got = sum(1 for l in out if l.startswith("ev request "))
        wires = sum(1 for l in out if l.startswith("io wire ") and ("485454502f312e3120323030" in l or "485454502f312e3020323030" in l))
        if got != n or wires != n:
            return ("%d requests (with and without Expect: 100-continue) were sent one after the other, %d were delivered after "
                    "their body arrived and %d were answered with 200" % (n, got, wires))
    return None


def nontrivial(case, out):
    return case.id if len(case.lines) > 4 else None


def search(rng, binaries, log):
    from vlib import run_parallel
    cases = generate("thorough", rng)[:4000]
    impl, _ = run_parallel(binaries[HARNESS], cases, "search")
    for c in cases:
        il = impl.get(c.id, [])
        f = oracle(c, il)
        if f and not classify(c, f, il, FINDINGS_ALL):
            return (c, f, il)
    return None
