"""C17 — protected routes need valid credentials; any Authorization value is safe; base64 round trip."""
import base64
import itertools
from vlib import Case, hx, unhx

HARNESS = "rx_driver"
LEAN_MODULES = ["ViaProofs.C17", "ViaProofs.Trans.AU"]
REQUIRED_THEOREMS = ["Via.C17_guard", "Via.C17_challenge", "Via.C17_accepts", "Via.b64_roundtrip",
                     "Via.AU_isValid", "Via.AU_authenticateValue", "Via.AU_authenticate", "Via.AU_addUserIsInsert"]
LEVEL = "proof"
LEVEL_TEXT = ('PROOF that a request is accepted only with the base64 of a registered user:password, every other value gets the challenge, registered credentials encoded by the library are accepted, and decode(encode(x)) = x for all byte strings; basic::is_valid, basic::authenticate_value and authentication::authenticate as translated from the current source (tools/cxx2lean_auth.py -> ViaGen/AU) are proved equal to the model and proved never to throw, for every header map and user table (Trans/AU; base64::decode itself is modelled, not translated); correspondence exhaustive over short values, empty users/passwords, protected routes in the router; ASan for memory safety of the C++.')
RULE = ("Authorization values: every string of length <= N over {'Q','=',' ','d',':'} after 'Basic ', scheme-only and "
        "truncated values, valid and invalid credentials for tables incl. empty password and ':' in password, random "
        "octets; base64 round trip for every length 0..400 (random content) and all 1- and 2-byte strings; the expected "
        "decision is attached by construction where the input is well-formed, otherwise the requirement is 'no crash, "
        "no exception, 401'; non-trivial = value contains the Basic scheme; distinct = distinct (table, value)")
TRUSTED_BASE = ["Lean 4.33 kernel", "axioms: propext, Classical.choice, Quot.sound at most",
                "rx_driver harness (ASan/UBSan/_GLIBCXX_DEBUG; abort or escaped exception is a compared output) + via_model driver",
                "tools/cxx2lean_auth.py (translation of basic::is_valid / authenticate_value / authenticate; the model is proved equal to it in ViaProofs/Trans/AU)",
                "Boost base64 iterator adaptors modelled by their observed semantics (differential on all short strings)"]
ASSUMPTIONS = ["std::unordered_map lookup = association list lookup", "memory safety itself is observed through sanitizers, not proved"]
EXHAUSTIVE = {"quick": "all strings of length <= 5 over a 5-letter alphabet after 'Basic '",
              "thorough": "all strings of length <= 7 over a 5-letter alphabet after 'Basic '"}

ALPHA = b"Q= d:"
TABLES = [
    (b"", [(b"user", b"password-long-1")]),
    (b"realm", [(b"u", b""), (b"v", b"a:b:c")]),
    (b"r", [(b"Aladdin", b"open sesame"), (b"x" * 40, b"y" * 40)]),
]
BATCH = 40


def auth_line(realm, users, value):
    parts = ["auth", hx(realm), str(len(users))]
    for (u, p) in users:
        parts += [hx(u), hx(p)]
    parts.append("none" if value is None else hx(value))
    return " ".join(parts)


def challenge(realm):
    return b"Basic" if not realm else b'Basic realm="' + realm + b'"'


def generate(tier, rng):
    items = []   # (line, expected or None)
    maxlen = 5 if tier == "quick" else 7
    realm, users = TABLES[0]
    for n in range(0, maxlen + 1):
        for t in itertools.product(ALPHA, repeat=n):
            items.append((auth_line(realm, users, b"Basic " + bytes(t)), "chal=" + hx(challenge(realm))))
    for (realm, users) in TABLES:
        ch = "chal=" + hx(challenge(realm))
        items.append((auth_line(realm, users, None), ch))
        for v in (b"", b"Basic", b"Basic ", b"Basi", b"Digest abc", b"basic dTpw", b"Bearer Basic", b"xBasic", b"Basic=", b"Basic =",
                  b"Basic ==", b"Basic ===", b"Basic ====", b"Basic =====", b"Basic A", b"Basic AA", b"Basic AAA", b"Basic A=", b"Basic \n",
                  b"Basic \xff\xfe", b"Basic " + b"=" * 64, b"Basic " + b"A" * 5000):
            items.append((auth_line(realm, users, v), ch))
        for (u, p) in users:
            good = base64.b64encode(u + b":" + p)
            items.append((auth_line(realm, users, b"Basic " + good), "chal=-"))
            items.append((auth_line(realm, users, b"Basic " + good.rstrip(b"=")), "chal=-"))      # unpadded is tolerated
            items.append((auth_line(realm, users, b"Basic " + base64.b64encode(u + b":" + p + b"x")), ch))
            items.append((auth_line(realm, users, b"Basic " + base64.b64encode(u + b"x:" + p)), ch))
            items.append((auth_line(realm, users, b"Basic " + base64.b64encode(u)), ch))
            items.append((auth_line(realm, users, b"Basic " + base64.b64encode(u + p)), ch))
            items.append((auth_line(realm, users, b"Basic " + base64.b64encode(p + b":" + u)), ch if p + b":" + u != u + b":" + p else "chal=-"))
            items.append((auth_line(realm, users, b"Digest " + good), ch))
            # empty passwords / empty or unknown user names: accepted only when exactly that pair is registered
            for (uu, pp) in ((u, b""), (b"", p), (b"", b""), (u + b"x", b""), (b"nobody", b""), (b"nobody", p)):
                ok = any(uu == ru and pp == rp for (ru, rp) in users)
                items.append((auth_line(realm, users, b"Basic " + base64.b64encode(uu + b":" + pp)), "chal=-" if ok else ch))
                items.append((auth_line(realm, users, b"Basic " + base64.b64encode(uu + b":" + pp).rstrip(b"=")), "chal=-" if ok else ch))
    nrand = 3000 if tier == "quick" else 20000
    for _ in range(nrand):
        realm, users = rng.choice(TABLES)
        kind = rng.below(4)
        if kind == 0:
            v = rng.bytes(rng.range(0, 40))
        elif kind == 1:
            v = b"Basic " + rng.bytes(rng.range(0, 30))
        elif kind == 2:
            v = b"Basic " + rng.bytes(rng.range(0, 30), b"ABCabc012+/= \t\r\n")
        else:
            v = rng.bytes(rng.range(0, 5), b"B x") + b"Basic" + rng.bytes(rng.range(0, 12), b" =AQ:")
        v = v.replace(b"\n", b"")  # a header value cannot contain LF
        items.append((auth_line(realm, users, v), None))
    # round trip
    for n in range(0, 401 if tier == "quick" else 1200):
        items.append(("b64rt " + hx(rng.bytes(n)), ("rt", n)))
    for a in range(256):
        items.append(("b64rt " + hx(bytes([a])), ("rt", 1)))
    for _ in range(1500 if tier == "quick" else 5000):
        items.append(("b64rt " + hx(rng.bytes(rng.choice([2, 3, 56, 57, 58, 59, 113, 114, 115, 171]))), ("rt", 0)))
    cases = []
    for bi in range(0, len(items), BATCH):
        chunk = items[bi:bi + BATCH]
        cases.append(Case("c17-%d" % (bi // BATCH), [l for l, _ in chunk], {"expect": [e for _, e in chunk]}))
    # protected routes in the router: the handler of a protected method runs only when its authenticator accepts the
    # request, otherwise 401 with that authenticator's challenge — whatever else is registered for the same path, in
    # whatever order (public method first, protected first, several protected methods with different authenticators)
    from props import c16
    methods = [b"GET", b"PUT", b"DELETE", b"POST"]
    tables = []
    for path in (b"/item", b"/item/:id", b"/a/:x/b"):
        for k in range(1, 5):
            for _ in range(3 if tier == "quick" else 30):
                ms = []
                for j in range(k):
                    ms.append((methods[j], j + 1, rng.choice([-1, 0, 0, 1])))
                rng.shuffle(ms)
                tables.append([(path, ms)])
        tables.append([(path, [(b"GET", 1, -1), (b"PUT", 2, 0), (b"DELETE", 3, 0)]), (b"/other", [(b"GET", 4, 1)])])
        tables.append([(b"/other", [(b"GET", 4, 1)]), (path, [(b"PUT", 2, 0), (b"GET", 1, -1)])])
    for ti, routes in enumerate(tables):
        lines = c16.table_lines(routes)
        exp = [None] * len(lines)
        for (pat, ms) in routes:
            tgt = b"/".join((b"v" if seg.startswith(b":") else seg) for seg in pat.split(b"/"))
            for m in methods:
                for mask in range(4):
                    lines.append("rt-req %s %s %d" % (hx(m), hx(tgt), mask))
                    exp.append(c16.expected_line(routes, m, tgt, mask))
        cases.append(Case("c17-rt-%d" % ti, lines, {"expect": exp}))
    return cases


def oracle(case, out):
    exp = case.meta.get("expect") or [None] * len(case.lines)
    if len(out) != len(case.lines):
        return "the harness stopped after %d of %d operations (%s): crash, sanitizer abort or escaped exception at %r" % (
            len(out), len(case.lines), out[-1:], case.lines[min(len(out), len(case.lines)) - 1] if out else case.lines[0])
    for i, (e, o) in enumerate(zip(exp, out)):
        if o.startswith("abort"):
            return "operation %r: %s" % (case.lines[i - 1] if i else case.lines[0], o)
        if isinstance(e, tuple):
            x = unhx(case.lines[i].split()[1])
            dec = unhx(o.split("dec=")[1])
            if dec != x:
                return "base64 round trip fails for a %d byte string %s: decode(encode(x)) = %s" % (len(x), hx(x)[:80], hx(dec)[:80])
        elif e is not None and e != o:
            return "operation %r: decision %r, expected %r" % (case.lines[i], o, e)
        elif e is None and case.lines[i].startswith("auth ") and not o.startswith("chal="):
            return "operation %r: unexpected output %r" % (case.lines[i], o)
    return None


def nontrivial(case, out):
    return case.id if any("4261736963" in l or l.startswith("b64rt") for l in case.lines) else None


def search(rng, binaries, log):
    from vlib import run_parallel
    cases = generate("thorough", rng)
    impl, _ = run_parallel(binaries[HARNESS], cases, "search")
    for c in cases:
        il = impl.get(c.id, [])
        f = oracle(c, il)
        if f:
            return (c, f, il)
    return None
