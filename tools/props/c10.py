"""C10 — lifecycle events are paired and the server forgets closed connections."""
import simcommon as S
import gen_sim
from vlib import Case, hx

HARNESS = "sim_driver"
LEAN_MODULES = ["ViaProofs.C10"]
LEMMA_MODULES = ['ViaProofs.ConnLemmas']
REQUIRED_THEOREMS = ['Via.C10', 'Via.C10_filter_reject']
LEVEL = "proof"
LEVEL_TEXT = ('PROOF over every history of accepts, completions, errors, application actions and teardowns that per connection connected is signalled at most once, disconnected at most once and only after connected, NO application callback of any kind follows disconnected, and retained = open; no transition raises. Correspondence with the real server templates (incl. handlers that disconnect inside callbacks) and real-socket abrupt-close runs.')
TRUSTED_BASE = S.SIM_TRUSTED
ASSUMPTIONS = S.SIM_ASSUMPTIONS
compare = S.compare

PROP = "C10"

RULE = ("histories over 1-3 connections interleaving accepts (filter accept/reject, handshake ok/fail, remote endpoint unavailable), "
        "request fragments, responses, application disconnect, read/write completions with every error code, repeated signals, late "
        "aborted completions; oracle: lifecycle word per connection, no escaped exception, retained == open at every state probe; "
        "non-trivial = a fault or a disconnect occurs")


def generate(tier, rng):
    cases = S.corpus_cases("C10")
    cases += S.make_cases("c10", tier, rng, 500, 15000)
    cases += S.make_cases("c10f", tier, rng, 60, 2000, force={"filter": "even"})
    return cases


def kf_cases():
    import os, json
    root = os.path.dirname(os.path.dirname(os.path.dirname(os.path.abspath(__file__))))
    cases = []
    for f in json.load(open(os.path.join(root, "known_findings.json")))["findings"]:
        if f["property"] != PROP or f.get("status") != "open":
            continue
        txt = open(os.path.join(root, f["witness"])).read()
        lines = [l for l in txt.splitlines() if l and not l.startswith("#") and not l.startswith("case ")]
        opts = {}
        for tok in lines[0].split()[1:]:
            a, b = tok.split("=", 1)
            opts[a] = b
        opts.setdefault("flavour", "tcp")
        opts.setdefault("policy", "sync")
        cases.append(Case("kf-" + f["id"], lines, {"opts": opts, "kf_witness": f["id"], "complete": True, "tags": ["kf-witness"]}))
    return cases


def _load_findings():
    import os, json
    root = os.path.dirname(os.path.dirname(os.path.dirname(os.path.abspath(__file__))))
    return [f for f in json.load(open(os.path.join(root, "known_findings.json")))["findings"] if f["property"] == PROP]


FINDINGS_ALL = _load_findings()


def classify(case, fail, il, findings):
    return None


def oracle(case, out):
    return S.oracle_c10(case, S.cut(case, out))


def nontrivial(case, out):
    return case.id if len(case.lines) > 4 else None


def search(rng, binaries, log):
    from vlib import run_parallel
    cases = generate("thorough", rng)[:4000]
    impl, _ = run_parallel(binaries[HARNESS], cases, "search")
    for c in cases:
        il = impl.get(c.id, [])
        f = oracle(c, il)
        if f and not classify(c, f, il, FINDINGS_ALL):
            return (c, f, il)
    return None


def extra_checks(tier, rng, binaries, log):
    return (S.net_abrupt_checks(tier, binaries, log, ['net_driver'] + (['net_driver_tls'] if tier == 'thorough' else []), PROP, tls_midresp=False) +
            S.net_rstdisc_checks(tier, binaries, log, ['net_driver'] + (['net_driver_tls'] if tier == 'thorough' else []), PROP))
