"""C14 — HEAD responses carry the GET headers and never a body."""
import simcommon as S
import gen_sim
from vlib import Case, hx

HARNESS = "sim_driver"
LEAN_MODULES = ["ViaProofs.C14"]
LEMMA_MODULES = ['ViaProofs.ConnLemmas', 'ViaProofs.Trans.RQ', 'ViaProofs.Trans.RR', 'ViaProofs.Trans.MHA', 'ViaProofs.Trans.RQP', 'ViaProofs.Trans.ENC']
REQUIRED_THEOREMS = ['Via.C14_head', 'Via.C14_next_request']
LEVEL = "proof"
LEVEL_TEXT = ("PROOF (step level) that for a HEAD request both body-carrying overloads write exactly the head the GET twin gets, and that clear() resets the flag; on the real templates the stream is walked response by response: nothing may follow a HEAD head and its Content-Length is the GET twin's. is_head() and the receiver's HEAD handling are translated (Trans/RQP, Trans/RR). Known finding C14-KF1 (late responses).")
TRUSTED_BASE = S.SIM_TRUSTED
ASSUMPTIONS = S.SIM_ASSUMPTIONS
compare = S.compare

PROP = "C14"

RULE = ("HEAD requests (any fragmentation, with and without Content-Length: 0) preceded / followed by other methods on the same "
        "connection x send overloads x translate_head on/off x router; oracle: handler sees GET iff translation is on, the bytes "
        "written for a HEAD request end with the head whose Content-Length is that of the GET answer; non-trivial = a HEAD request occurs")


def generate(tier, rng):
    cases = S.corpus_cases("C14") + kf_cases()
    n = 300 if tier == "quick" else 8000
    for i in range(n):
        o_force = {"policy": rng.choice(["sync", "sync", "router"]), "resp": "fixed", "translate": rng.choice([0, 1]),
                   "filter": "all", "autodisc": 0}
        if o_force["policy"] == "sync":
            # every send variant: buffered body, caller-owned buffers
            o_force["ansovl"] = rng.choice(["body", "body", "bufs"])
        line, o = gen_sim.server_line(rng, o_force)
        lines = [line, "accept"]
        if o["flavour"] == "ssl":
            lines.append("hs c0 ok")
        target = b"/hello" if o["policy"] == "router" else b"/h"
        heads = []
        for j in range(rng.range(1, 5)):
            method = rng.choice([b"HEAD", b"HEAD", b"GET", b"POST", b"PUT"])
            heads.append(method == b"HEAD")
            hdrs = [gen_sim.HOST]
            body = b""
            if method == b"PUT" and o["policy"] != "router":
                # a chunked request right after a HEAD: the flag must not leak into it
                data = gen_sim.req(method, target, headers=hdrs + [(b"Transfer-Encoding", b"chunked")], chunks=[b"xy"])
                for part in gen_sim.split_reads(rng, data):
                    lines.append("read c0 " + hx(part))
                lines.append("wdone c0")
                continue
            if method == b"POST":
                hdrs.append((b"Content-Length", b"3"))
                body = b"abc"
            elif method == b"HEAD" and rng.chance(1, 3):
                hdrs.append((b"Content-Length", b"0"))
            elif method == b"HEAD" and rng.chance(1, 2):
                # a HEAD request that carries a body, the body arriving in a later read than the head
                hdrs.append((b"Content-Length", b"3"))
                head_only = gen_sim.req(method, target, headers=hdrs, body=b"")
                for part in (gen_sim.split_reads(rng, head_only) if rng.chance(1, 2) else [head_only]):
                    lines.append("read c0 " + hx(part))
                for part in rng.choice([[b"abc"], [b"a", b"bc"], [b"ab", b"c"]]):
                    lines.append("read c0 " + hx(part))
                lines.append("wdone c0")
                continue
            data = gen_sim.req(method, target, headers=hdrs, body=body)
            for part in gen_sim.split_reads(rng, data):
                lines.append("read c0 " + hx(part))
            lines.append("wdone c0")
        lines.append("state")
        cases.append(Case("c14-%d" % i, lines, {"opts": o, "heads14": heads, "tags": [o["policy"], "translate%s" % o["translate"]]}))
    return cases


def kf_cases():
    import os, json
    root = os.path.dirname(os.path.dirname(os.path.dirname(os.path.abspath(__file__))))
    cases = []
    for f in json.load(open(os.path.join(root, "known_findings.json")))["findings"]:
        if f["property"] != PROP or f.get("status") != "open":
            continue
        txt = open(os.path.join(root, f["witness"])).read()
        lines = [l for l in txt.splitlines() if l and not l.startswith("#") and not l.startswith("case ")]
        opts = {}
        for tok in lines[0].split()[1:]:
            a, b = tok.split("=", 1)
            opts[a] = b
        opts.setdefault("flavour", "tcp")
        opts.setdefault("policy", "sync")
        cases.append(Case("kf-" + f["id"], lines, {"opts": opts, "kf_witness": f["id"], "complete": True, "tags": ["kf-witness"]}))
    return cases


def _load_findings():
    import os, json
    root = os.path.dirname(os.path.dirname(os.path.dirname(os.path.abspath(__file__))))
    return [f for f in json.load(open(os.path.join(root, "known_findings.json")))["findings"] if f["property"] == PROP]


FINDINGS_ALL = _load_findings()


def classify(case, fail, il, findings):
    ids = set(f["id"] for f in findings)
    if "C14-KF1" in ids and case.meta.get("opts", {}).get("policy") == "deferred":
        return "C14-KF1"
    return None


def oracle(case, out):
    return S.oracle_c14(case, S.cut(case, out))


def nontrivial(case, out):
    return case.id if len(case.lines) > 4 else None


def search(rng, binaries, log):
    from vlib import run_parallel
    cases = generate("thorough", rng)[:4000]
    impl, _ = run_parallel(binaries[HARNESS], cases, "search")
    for c in cases:
        il = impl.get(c.id, [])
        f = oracle(c, il)
        if f and not classify(c, f, il, FINDINGS_ALL):
            return (c, f, il)
    return None
