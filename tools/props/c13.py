"""C13 — application-supplied headers can never split a response."""
import itertools
from vlib import Case, hx, unhx

HARNESS = "rx_driver"
LEAN_MODULES = ["ViaProofs.C13"]
LEMMA_MODULES = ['ViaProofs.ConnLemmas', 'ViaProofs.Trans.ENC']
REQUIRED_THEOREMS = ['Via.C13', 'Via.C13_refuse_when_blank']
LEVEL = "proof"
LEVEL_TEXT = ('PROOF for every header string, status, reason and length that a response the library agrees to send has exactly one empty line, at the end, and that a string which would introduce one (or is not a sequence of terminated lines) is refused; are_headers_split and tx_response::is_valid as translated from the current source are proved equal to those of the model (Trans/ENC); correspondence exhaustive over short strings and over operation histories on one reused tx_response; the refusal is also exercised through every send overload of the real http_connection for GET and HEAD.')
RULE = ("every header string over {CR,LF,'a',':'} up to a length bound (exhaustive) plus random strings over all bytes, "
        "each through tx_response::is_valid/message with status 200/204/100 and through add_header(name,value); "
        "a case is non-trivial when the string contains CR or LF; distinct = distinct (string, status, path); plus the send paths of the "
        "real http_connection (sim_driver): header strings with and without an empty line x GET / HEAD x the three send overloads x "
        "inside the handler / later x HEAD translation: refused (nothing written) iff the string would split the head")
TRUSTED_BASE = ["Lean 4.33 kernel", "axioms: propext, Classical.choice, Quot.sound at most",
                "tools/extract.py (CRLF constant, window initialisation)", "rx_driver harness + via_model driver",
                "tools/cxx2lean_enc.py (translation of are_headers_split and tx_response::is_valid and of the encoders; the model is proved equal to it in ViaProofs/Trans/ENC)",
                "std::string modelled as List UInt8"]
ASSUMPTIONS = ["reason phrase and version bytes contain no LF (they are not header input)",
               "send overloads refuse exactly when is_valid() is false: checked on the real http_connection by the C04/C03 sim checks"]
EXHAUSTIVE = {"quick": "all strings over {CR,LF,a,:} of length <= 6", "thorough": "all strings over {CR,LF,a,:} of length <= 8"}

ALPHA = [13, 10, 97, 58]
BATCH = 48


def blank_lines(msg):
    """indices of LF-terminated lines that are empty or a lone CR (independent of model and code)"""
    res = []
    start = 0
    idx = 0
    for i, c in enumerate(msg):
        if c == 10:
            line = msg[start:i]
            if line == b"" or line == b"\r":
                res.append(idx)
            idx += 1
            start = i + 1
    return res, idx, (start == len(msg))


def generate(tier, rng):
    maxlen = 6 if tier == "quick" else 8
    items = []
    for n in range(0, maxlen + 1):
        for t in itertools.product(ALPHA, repeat=n):
            items.append(("hs", bytes(t)))
    nrand = 600 if tier == "quick" else 20000
    for _ in range(nrand):
        n = rng.range(1, 60)
        kind = rng.below(3)
        if kind == 0:
            s = rng.bytes(n)
        elif kind == 1:
            s = rng.bytes(n, b"\r\n\r\n\r\nab: XY-09\t")
        else:
            # well-formed lines with one disturbance
            lines = b"".join(b"X-%d: v%d\r\n" % (i, rng.below(100)) for i in range(rng.range(1, 4)))
            pos = rng.below(len(lines) + 1)
            s = lines[:pos] + rng.choice([b"\r\n", b"\n", b"\r", b"\n\n", b"\r\n\r\n", b""]) + lines[pos:]
        items.append(("hs", s))
    # (name, value) paths
    for _ in range(300 if tier == "quick" else 8000):
        k = rng.range(1, 3)
        pairs = []
        for _ in range(k):
            name = rng.bytes(rng.range(0, 6), b"ab-X\r\n:")
            value = rng.bytes(rng.range(0, 8), b"ab \r\n\r\n:")
            pairs.append((name, value))
        items.append(("add", pairs))
    cases = []
    # one tx_response object REUSED through a history of operations (set_header_string / add_header / is_valid / copy /
    # message): validity must be a function of the CURRENT header string alone, whatever was checked before
    fragments = [b"X-A: 1\r\n", b"X-Long-Header-Name: some longer value here\r\n", b"\r\n", b"\n", b"X-B: 2\r\n\r\nInjected: 1\r\n",
                 b"A: b\n\nC: d\r\n", b"", b"Set-Cookie: a=b\r\n", b"X: y", b"\r\nX: y\r\n"]
    for hi in range(150 if tier == "quick" else 6000):
        ops = []
        for _ in range(rng.range(2, 6)):
            k = rng.below(6)
            if k <= 1:
                ops.append(("H", b"".join(rng.choice(fragments) for _ in range(rng.range(0, 3)))))
            elif k == 2:
                ops.append(("A", rng.choice([b"X-N", b"Y"]), rng.choice([b"v", b"", b"a\r\n\r\nb", b"long value " * 3])))
            elif k == 3:
                ops.append(("C",))
            else:
                ops.append(("V",))
        ops.append(("V",))
        ops.append(("M",))
        spec = ",".join(":".join([o[0]] + [hx(x) for x in o[1:]]) for o in ops)
        cases.append(Case("c13-seq%d" % hi, ["txseq st=200 ops=" + spec], {"seq": ops, "impl_only": True, "tags": ["reused-response"]}))
    for bi in range(0, len(items), BATCH):
        lines = []
        metas = []
        for (kind, payload) in items[bi:bi + BATCH]:
            st = rng.choice([200, 204, 100, 404, 304])
            cl = rng.choice([0, 5, 12345])
            if kind == "hs":
                lines.append("encresp st=%d hs=%s cl=%d" % (st, hx(payload), cl))
                metas.append((kind, payload, st))
            else:
                spec = ",".join("%s:%s" % (hx(n), hx(v)) for n, v in payload)
                lines.append("encresp st=%d add=%s cl=%d" % (st, spec, cl))
                metas.append((kind, b"".join(n + b": " + v + b"\r\n" for n, v in payload), st))
        cases.append(Case("c13-%d" % (bi // BATCH), lines, {"items": metas}))
    return cases


def seq_oracle(case, out):
    cur = b""
    toks = out[0].split(" ") if out else []
    ti = 0
    for o in case.meta["seq"]:
        if ti >= len(toks):
            return "txseq: output too short: %r" % out
        t = toks[ti]
        ti += 1
        if o[0] == "H":
            cur = o[1]
        elif o[0] == "A":
            cur = cur + o[1] + b": " + o[2] + b"\r\n"
        blanks, nlines, terminated = blank_lines(cur + b"\r\n")
        good = (cur == b"" or cur.endswith(b"\n")) and blanks == [nlines - 1]
        if o[0] in ("H", "V"):
            said = t.split("=")[1] == "1"
            if said and not good:
                return ("a reused tx_response reports a header string with an empty line inside (or an unterminated one) as valid "
                        "after the history %r: current header string %r" % ([x[0] for x in case.meta["seq"][:ti]], cur))
    return None


def oracle(case, out):
    if case.meta.get("seq") is not None:
        return seq_oracle(case, out)
    items = case.meta.get("items")
    if items is None:
        items = [None] * len(case.lines)
    if len(out) != len(case.lines):
        return "expected %d result lines, got %d (%s)" % (len(case.lines), len(out), out[-1:] )
    for i, line in enumerate(out):
        if not line.startswith("valid="):
            return "unexpected output %r for %r" % (line, case.lines[i])
        valid = line[6] == "1"
        msg = unhx(line.split("msg=")[1])
        blanks, nlines, terminated = blank_lines(msg)
        good = terminated and blanks == [nlines - 1] and msg.endswith(b"\r\n")
        if valid and not good:
            return ("op %d %r: is_valid() accepted the headers but the head has empty lines at line indices %s of %d "
                    "(terminated=%s); exactly one, the last, is required" % (i, case.lines[i], blanks, nlines, terminated))
    return None


def nontrivial(case, out):
    if case.meta.get("seq") is not None:
        return case.id if any(o[0] in ("H", "A") and any((b"\r" in x or b"\n" in x) for x in o[1:]) for o in case.meta["seq"]) else None
    items = case.meta.get("items") or []
    if any((b"\r" in p or b"\n" in p) for (_, p, _) in items):
        return case.id
    return None


def search(rng, binaries, log):
    from vlib import run_parallel
    cases = generate("thorough", rng)
    impl, _ = run_parallel(binaries[HARNESS], cases, "search")
    for c in cases:
        il = impl.get(c.id, [])
        f = oracle(c, il)
        if f:
            return (c, f, il)
    return None


# ---------------------------------------------------------------------------------------------------------------
# the send paths of the real http_connection (sim_driver): a header string that would put an empty line into the head
# (or is not a sequence of terminated lines) must be REFUSED by every send overload, for GET and for HEAD requests,
# inside the handler and later; a header string without one goes out with exactly one empty line, at the end.

SEND_HEADER_STRINGS = [
    b"", b"X-A: 1\r\n", b"X-A: 1\r\nX-B: 2\r\n", b"X-A: 1\nX-B: 2\n",
    b"X-A: 1\r\n\r\nX-B: 2\r\n", b"\r\nX-A: 1\r\n", b"\nX-A: 1\r\n", b"X-A: 1\n\nX-B: 2\n", b"X-A: 1\n\r\nX-B: 2\r\n",
    b"X-A: 1\r\n\r\n", b"X-A: 1", b"X-A: 1\r\nX-B: 2", b"X-A: 1\r\n\n", b"\r\n",
]


def send_path_cases(tier, rng):
    cases = []
    n = 0
    reqs = {"GET": b"GET / HTTP/1.1\r\nHost: a\r\n\r\n", "HEAD": b"HEAD / HTTP/1.1\r\nHost: a\r\n\r\n"}
    strings = list(SEND_HEADER_STRINGS)
    for _ in range(10 if tier == "quick" else 200):
        lines = b"".join(b"X-%d: v%d\r\n" % (i, rng.below(100)) for i in range(rng.range(1, 3)))
        pos = rng.below(len(lines) + 1)
        strings.append(lines[:pos] + rng.choice([b"\r\n", b"\n", b"\r", b"\n\n", b"\r\n\r\n", b""]) + lines[pos:])
    for hs in strings:
        blanks, nlines, terminated = blank_lines(hs)
        bad = bool(blanks) or (hs != b"" and not terminated)
        for method in ("GET", "HEAD"):
            for ovl in ("body", "bufs", "nobody"):
                for (policy, translate) in (("sync", 1), ("sync", 0), ("deferred", 1)):
                    opts = "server cont=s flavour=tcp policy=%s translate=%d" % (policy, translate)
                    if policy == "sync":
                        lines = [opts + " anshs=%s ansovl=%s" % (hx(hs), ovl), "accept", "read c0 " + hx(reqs[method])]
                    else:
                        lines = [opts, "accept", "read c0 " + hx(reqs[method]),
                                 "app-send c0 st=200 hs=%s b=7231 ovl=%s" % (hx(hs), ovl)]
                    lines += ["wdone c0", "state"]
                    cases.append(Case("c13-send-%d" % n, lines, {"bad": bad, "hs": hs}))
                    n += 1
    return cases


def extra_checks(tier, rng, binaries, log):
    import os
    import vlib
    try:
        sim = binaries.get("sim_driver") or vlib.build_harness("sim_driver", log)
    except vlib.BuildError as e:
        return [(False, "sim_driver does not build against the current tree: " + str(e)[-300:], "build sim_driver", {})]
    cases = send_path_cases(tier, rng)
    impl, _ = vlib.run_parallel(sim, cases, "c13send")
    model = {}
    if os.path.exists(vlib.model_binary()):
        model, _ = vlib.run_parallel(vlib.model_binary(), cases, "c13sendm")
    res = []
    bad = None
    diff = None
    import gen_sim
    for c in cases:
        out = impl.get(c.id) or []
        wires = [l for l in out if l.startswith("io wire c0 ")]
        writes = [l for l in out if l.startswith("io write c0 ")]
        if any(l.startswith("abort") for l in out):
            bad = bad or (c, "abort: " + [l for l in out if l.startswith("abort")][0])
        elif c.meta["bad"]:
            if writes or wires:
                head = bytes.fromhex(wires[0].split()[3]) if wires and wires[0].split()[3] != "-" else b""
                bad = bad or (c, "a response whose header string %r would put an empty line into the head (or is not a sequence of "
                              "terminated lines) was not refused: the connection wrote %r" % (c.meta["hs"], head[:200]))
        else:
            if not wires:
                bad = bad or (c, "a response with the well-formed header string %r was not sent" % c.meta["hs"])
            else:
                data = bytes.fromhex(wires[0].split()[3])
                end = data.find(b"\r\n\r\n")
                first_blank = min([i for i in (data.find(b"\n\n"), data.find(b"\n\r\n")) if i >= 0] or [-1])
                if end < 0 or first_blank + 1 < end:
                    bad = bad or (c, "the head written for header string %r has an empty line before its end: %r" % (c.meta["hs"], data[:200]))
        if model:
            a, b, kf = gen_sim.comparable(out, model.get(c.id) or [])
            if a != b:
                diff = diff or (c, "model and implementation differ:\n impl  %s\n model %s" % (a[-6:], b[-6:]))
    if bad:
        res.append((False, bad[1], bad[0].script(), {}))
    elif diff:
        res.append((False, "correspondence (send paths): " + diff[1], diff[0].script(), {}))
    res.append((True, "", "", {"send_path_cases": len(cases)}))
    return res
