"""C06 — per-connection buffering is bounded by the configured limits."""
from vlib import Case, hx
import gen_http as G

HARNESS = "rx_driver"
LEAN_MODULES = ["ViaProofs.C06"]
LEMMA_MODULES = ['ViaProofs.Trans.RL', 'ViaProofs.Trans.FL', 'ViaProofs.Trans.CH', 'ViaProofs.Trans.MH', 'ViaProofs.Trans.CK', 'ViaProofs.Trans.RQ', 'ViaProofs.Trans.RR', 'ViaProofs.Trans.MHA', 'ViaProofs.Trans.RQP']
REQUIRED_THEOREMS = ["Via.C06"]
LEVEL = "proof"
LEVEL_TEXT = ('PROOF that after every reachable receiver state the retained bytes are bounded by an explicit formula in the configured limits (invariant over all byte streams and fragmentations); translated parsers and receive as C01; correspondence on endless-stream families (sizes after every receive compared with the bound).')
RULE = ("adversarial endless streams (empty-name lines, repeated-name lines, distinct-name lines, folded lines, whitespace runs, "
        "endless method / target, huge Content-Length, endless chunk sequences, endless chunk extensions, endless trailers) fed "
        "line-by-line, byte-by-byte and in bulk up to several times the bound; after every read the retained bytes reported by the "
        "harness (all buffers of the receiver) are compared with B(cfg) computed from the limits, and the stream must be "
        "rejected within N(cfg) bytes when the head never ends; non-trivial = stream longer than the bound; distinct = "
        "distinct (family, config, fragmentation)")
TRUSTED_BASE = ["tools/cxx2lean.py + cxx2lean_rx.py + cxx2lean_enc.py (translator, from the current C++ into Lean, of the parse_char / parse state machines, message_headers::parse, rx_chunk::parse, rx_request / rx_response::parse, request_receiver / response_receiver::receive + clear, the header look-ups content_length / is_chunked / close_connection / expect_continue, the predicates keep_alive / missing_host_header / expect_continue / is_head / is_trace, and the encoders incl. are_headers_split and tx_response::is_valid; the model is proved equal to the translation in ViaProofs/Trans; mapped by name, not translated: std::unordered_map::find, strtol-based from_dec_string / from_hex_string, stringstream-based to_hex_string, std::string::find, std::transform(tolower))", "Lean 4.33 kernel", "axioms: propext, Classical.choice, Quot.sound at most",
                "rx_driver (-fno-access-control to read the private buffers) + via_model driver"]
ASSUMPTIONS = ["retained = method + target + header map + field in progress + body + chunk data/size/extension + trailers",
               "capacity of std::string / std::vector (allocator slack) is not modelled"]


def bound(cfg, maxc, maxk):
    return cfg.b + cfg.a + 2 * (cfg.hl + cfg.hn + cfg.ll) + maxc + maxk + 16 + cfg.ll


def head_bound(cfg):
    return cfg.b + cfg.a + 2 * cfg.ws + 14 + (cfg.hn + 2) * (cfg.ll + 2)


FAMILIES = {
    "empty-name": (b"GET / HTTP/1.0\r\n", b":\r\n", True),
    "empty-name-lf": (b"GET / HTTP/1.0\r\n", b":\n", True),
    "repeat-name": (b"GET / HTTP/1.0\r\n", b"a:\r\n", True),
    "repeat-name-val": (b"GET / HTTP/1.0\r\n", b"a: bcd\r\n", True),
    "distinct": (b"GET / HTTP/1.0\r\n", None, True),
    "fold": (b"GET / HTTP/1.0\r\nA: b\r\n", b" c\r\n", True),
    "fold-empty": (b"GET / HTTP/1.0\r\nA:\r\n", b" \r\n", True),
    "ws-method": (b"GET", b" ", True),
    "method": (b"", b"G", True),
    "target": (b"GET /", b"a", True),
    "value": (b"GET / HTTP/1.0\r\nA: ", b"v", True),
    "name": (b"GET / HTTP/1.0\r\n", b"n", True),
    "ws-value": (b"GET / HTTP/1.0\r\nA:", b" ", True),
    "chunk-ext": (b"POST / HTTP/1.0\r\nTransfer-Encoding: chunked\r\n\r\n1;", b"e", False),
    "chunk-hex": (b"POST / HTTP/1.0\r\nTransfer-Encoding: chunked\r\n\r\n", b"0", False),
    "chunk-ws": (b"POST / HTTP/1.0\r\nTransfer-Encoding: chunked\r\n\r\n", b" ", False),
    "trailers": (b"POST / HTTP/1.0\r\nTransfer-Encoding: chunked\r\n\r\n0\r\n", b":\r\n", False),
    "trailers-distinct": (b"POST / HTTP/1.0\r\nTransfer-Encoding: chunked\r\n\r\n0\r\n", None, False),
    "chunks": (b"POST / HTTP/1.0\r\nTransfer-Encoding: chunked\r\n\r\n", b"1\r\nx\r\n", False),
    "chunks-ext": (b"POST / HTTP/1.0\r\nTransfer-Encoding: chunked\r\n\r\n", b"2;abc\r\nxy\r\n", False),
    # a chunk announced far above max_chunk_size — bare, with an extension, with a bare ';', with upper-case hex and
    # leading zeros: its data must not be buffered
    "huge-chunk": (b"POST / HTTP/1.0\r\nTransfer-Encoding: chunked\r\n\r\n7fffffff\r\n", b"d" * 7, False),
    "huge-chunk-ext": (b"POST / HTTP/1.0\r\nTransfer-Encoding: chunked\r\n\r\n100000;name=value\r\n", b"d" * 7, False),
    "huge-chunk-semi": (b"POST / HTTP/1.0\r\nTransfer-Encoding: chunked\r\n\r\n7FFFFFFF;\r\n", b"d" * 7, False),
    "huge-chunk-zeros": (b"POST / HTTP/1.0\r\nTransfer-Encoding: chunked\r\n\r\n000FFFFF ;x\r\n", b"d" * 7, False),
    "huge-chunk-second": (b"POST / HTTP/1.0\r\nTransfer-Encoding: chunked\r\n\r\n1\r\nx\r\nfffff;e\r\n", b"d" * 7, False),
    "huge-cl": (b"POST / HTTP/1.0\r\nContent-Length: 999999999\r\n\r\n", b"b" * 7, False),
    "cl-body": (b"POST / HTTP/1.0\r\nContent-Length: 50\r\n\r\n", b"b" * 3, False),
    # one field name repeated / two names alternating / Cookie, each line as long as the line limit allows: the joined
    # VALUES count towards the header-length limit (unit computed per configuration)
    "repeat-long": (b"GET / HTTP/1.0\r\n", lambda cfg, i: b"a: " + b"v" * max(1, cfg.ll - 8) + b"\r\n", True),
    "alternate-long": (b"GET / HTTP/1.0\r\n", lambda cfg, i: (b"a: " if i % 2 else b"b: ") + b"v" * max(1, cfg.ll - 8) + b"\r\n", True),
    "cookie-long": (b"GET / HTTP/1.0\r\n", lambda cfg, i: b"Cookie: " + b"c" * max(1, cfg.ll - 13) + b"\r\n", True),
    "trailers-repeat-long": (b"POST / HTTP/1.0\r\nTransfer-Encoding: chunked\r\n\r\n0\r\n",
                             lambda cfg, i: b"t: " + b"v" * max(1, cfg.ll - 8) + b"\r\n", False),
}


def generate(tier, rng):
    quick = tier == "quick"
    cases = []
    n = 0
    for cfgname in ("tiny", "tinys", "mid", "mids", "wide"):
        cfg = G.REQ_CFGS[cfgname]
        for fam, (prefix, unit, in_head) in FAMILIES.items():
            if not in_head and cfg.ll < 30:
                continue
            for (maxc, maxk, cc) in ((20, 8, 1), (60, 8, 0)):
                B = bound(cfg, maxc, maxk)
                H = head_bound(cfg)
                if callable(unit):
                    ufn = unit
                    ulen = len(ufn(cfg, 0))
                else:
                    ufn = None
                    ulen = len(unit or b"xx: \r\n")
                reps = (3 * max(B, H)) // max(1, ulen) + 20
                if quick:
                    reps = min(reps, 4000)
                units = []
                for i in range(reps):
                    if ufn is not None:
                        units.append(ufn(cfg, i))
                    elif unit is None:
                        units.append(b"h%d:\r\n" % i)
                    else:
                        units.append(unit)
                for frag in ("unit", "bulk") + (("bytes",) if (fam in ("empty-name", "fold", "chunks", "method") or not quick) else ()):
                    lines = [cfg.new_line(maxc=maxc, maxk=maxk, cc=cc)]
                    if frag == "unit":
                        reads = [prefix] + units if prefix else units
                    elif frag == "bulk":
                        blob = b"".join(units)
                        reads = ([prefix] if prefix else []) + [blob[i:i + 97] for i in range(0, len(blob), 97)]
                    else:
                        blob = prefix + b"".join(units[:max(50, reps // 4)])
                        reads = [blob[i:i + 1] for i in range(len(blob))]
                    for rd in reads:
                        lines.append("feed " + hx(rd))
                        lines.append("sizes")
                    cases.append(Case("c06-%d" % n, lines, {"B": B, "H": H, "in_head": in_head, "fam": fam, "cc": cc,
                                                            "reads": [len(r) for r in reads], "tags": [fam, frag, cfgname]}))
                    n += 1
    return cases


def oracle(case, out):
    B = case.meta.get("B")
    if B is None:
        return None
    for l in out:
        if l.startswith("abort"):
            return "receiver aborted: " + l
    consumed = 0
    ri = 0
    rejected_at = None
    reads = case.meta["reads"]
    for l in out:
        if l.startswith("read-done"):
            if ri < len(reads):
                consumed += reads[ri]
            ri += 1
        elif l.startswith("rx=INVALID") and rejected_at is None:
            rejected_at = consumed + (reads[ri] if ri < len(reads) else 0)
        elif l.startswith("sizes retained="):
            r = int(l.split("=")[1])
            if r > B:
                return "family %s: %d bytes retained after %d stream bytes, bound from the limits is %d" % (case.meta["fam"], r, consumed, B)
    if case.meta["in_head"]:
        if rejected_at is None:
            return "family %s: %d bytes of a head that never ends were accepted without rejection (bound %d)" % (case.meta["fam"], consumed, case.meta["H"])
        if rejected_at > case.meta["H"]:
            return "family %s: rejected only after %d bytes, bound %d" % (case.meta["fam"], rejected_at, case.meta["H"])
    return None


def nontrivial(case, out):
    return case.id if sum(case.meta.get("reads", [])) > case.meta.get("B", 0) else None


def search(rng, binaries, log):
    from vlib import run_parallel
    cases = generate("thorough", rng)
    impl, _ = run_parallel(binaries[HARNESS], cases, "search")
    for c in cases:
        il = impl.get(c.id, [])
        f = oracle(c, il)
        if f:
            return (c, f, il)
    return None
