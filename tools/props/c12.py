"""C12 — thread-pool mode: no data races, per-connection handlers never overlap."""
import re
import subprocess
import vlib

HARNESS = "net_driver_pool"
LEAN_MODULES = ["ViaProofs.C12"]
LEMMA_MODULES = ["ViaProofs.C18", "ViaProofs.ConnLemmas"]
REQUIRED_THEOREMS = ["Via.C12_accept_on_strand", "Via.C12_collections_concurrent", "Via.C12_lock_discipline", "Via.C12_connected_before_reception"]
LEVEL = "proof"
LEVEL_TEXT = ('PARTIAL: the hypotheses under which the single-threaded theorems transfer to a thread pool are structural facts re-extracted from the source on every run and discharged in Lean (strand per accepted socket, concurrent collections, lock discipline, connected-before-reception); data races themselves cannot be exhibited by a model: the real server runs with 4-16 io threads, connection churn, re-entrancy counters and ThreadSanitizer (clang). Known finding C12-KF1.')
RULE = ("structural obligations re-extracted from the source (strand per accepted socket, concurrent collections, lock discipline of "
        "the map) + the real server built with HTTP_THREAD_SAFE and run by 2..16 threads against many loopback connections sending "
        "sequential keep-alive requests; a re-entrancy counter in the handler detects overlapping handlers of one connection, "
        "responses are accounted for, and the thorough tier runs the same under ThreadSanitizer (clang); non-trivial = run with "
        ">= 2 threads; distinct = distinct (threads, connections)")
TRUSTED_BASE = ["Lean 4.33 kernel", "tools/extract.py (structural facts)", "net_driver pool scenario on the real tcp_adaptor",
                "ThreadSanitizer (thorough tier) for memory-level races: sampling, not proof"]
ASSUMPTIONS = ["the single-connection theorems (C03, C09, C10, C11) transfer to the pool under the extracted facts: handlers of one "
               "connection are serialised by its strand, the shared collections are the concurrent map (C18); data races at the "
               "memory level are modelled, not verified", "asio's strand guarantee"]
FINDINGS_ALL = []


def generate(tier, rng):
    return []


def oracle(case, out):
    return None


def classify(case, fail, il, findings):
    if any(f["id"] == "C12-KF1" for f in findings) and "never answered" in fail:
        return "C12-KF1"
    return None


def run_net(binary, args, timeout=240, env=None):
    r = subprocess.run([binary] + args, capture_output=True, text=True, timeout=timeout, env=env)
    m = re.search(r"^RESULT (.*)$", r.stdout, re.M)
    if not m:
        return None, r.stdout[-400:] + r.stderr[-1200:]
    return dict(kv.split("=", 1) for kv in m.group(1).split() if "=" in kv), r.stderr


def extra_checks(tier, rng, binaries, log):
    res = []
    # (variant, io threads, connections, requests per connection[, rounds of short-lived connections])
    # the last two TSan runs are churn runs: many short-lived connections on 8 io threads, so that the handlers that add
    # and remove connections run concurrently on different strands
    runs = [("net_driver_pool", 4, 8, 40), ("net_driver_tsan", 4, 24, 6)] + [("net_driver_tsan", 8, 32, 2, 16)] * 5 \
        if tier == "quick" else [("net_driver_pool", 8, 32, 100), ("net_driver_pool", 16, 64, 50),
                                 ("net_driver_tsan", 4, 16, 40), ("net_driver_tsan", 8, 32, 30)] + [("net_driver_tsan", 8, 32, 2, 16)] * 12
    samples = []
    n = 0
    for run in runs:
        (h, threads, conns, reqs) = run[:4]
        rounds = run[4] if len(run) > 4 else (8 if h.endswith("tsan") else 5)
        try:
            binary = binaries.get(h) or vlib.build_harness(h, log)
        except vlib.BuildError as e:
            res.append((False, "net_driver (%s) does not build: %s" % (h, str(e)[-300:]), "build", {}))
            continue
        kv, err = run_net(binary, ["pool", "threads=%d" % threads, "conns=%d" % conns, "reqs=%d" % reqs] +
                          ["rounds=%d" % rounds])
        n += 1
        cmdline = "net_driver(%s) pool threads=%d conns=%d reqs=%d" % (h, threads, conns, reqs)
        if kv is None:
            res.append((False, "net_driver failed to run: " + err[-500:], cmdline, {}))
            continue
        samples.append({"variant": h, "threads": threads, "conns": conns, "sent": kv.get("sent"), "answered": kv.get("answered"),
                        "overlaps": kv.get("overlaps"), "tsan_reports": kv.get("tsan_reports", "-")})
        if kv.get("overlaps") != "0":
            res.append((False, "handlers of one connection ran concurrently %s times" % kv.get("overlaps"), cmdline, {}))
        if kv.get("dup_disconnected", "0") != "0":
            res.append((False, "%s connections were signalled as disconnected more than once in the thread pool" % kv.get("dup_disconnected"),
                        cmdline, {}))
        if kv.get("srv_connected") is not None and int(kv.get("srv_disconnected", 0)) > int(kv.get("srv_connected", 0)):
            res.append((False, "%s disconnected events for %s connected events in the thread pool" % (kv.get("srv_disconnected"), kv.get("srv_connected")),
                        cmdline, {}))
        if kv.get("order_violations", "0") != "0":
            res.append((False, "%s handler calls for a connection whose connected handler had not returned yet" % kv.get("order_violations"),
                        cmdline, {}))
        if kv.get("handled") != kv.get("sent"):
            res.append((False, "%s of %s requests sent one at a time never reached the request handler in the thread pool" % (
                int(kv.get("sent", 0)) - int(kv.get("handled", 0)), kv.get("sent")), cmdline, {}))
        if kv.get("tsan_reports", "0") not in ("0", "-"):
            top = [l for l in err.splitlines() if "via::" in l][:6]
            res.append((False, "ThreadSanitizer reported %s data race(s); frames: %s" % (kv.get("tsan_reports"), top), cmdline, {}))
        if kv.get("srv_exceptions", "0") != "0":
            res.append((False, "an exception escaped an io thread", cmdline, {}))
        elif kv.get("answered") != kv.get("sent"):
            res.append((False, "%s of %s sequential requests were never answered in the thread pool (handled=%s, sent events=%s)" % (
                int(kv.get("sent", 0)) - int(kv.get("answered", 0)), kv.get("sent"), kv.get("handled"), kv.get("srv_sent")), cmdline, {}))
    res.append((True, "", "", {"evaluations": n, "distinct_nontrivial": max(2, n), "samples": samples}))
    return res
