"""C01 — valid requests are delivered intact however their bytes are fragmented."""
import os
from vlib import Case, hx
import gen_http as G
from gen_http import Request, Header, Chunk

HARNESS = "rx_driver"
LEAN_MODULES = ["ViaProofs.C01"]
LEMMA_MODULES = ['ViaProofs.Frag.Lines', 'ViaProofs.Frag.Headers', 'ViaProofs.Frag.Compose', 'ViaProofs.C05', 'ViaProofs.Trans.RL', 'ViaProofs.Trans.FL', 'ViaProofs.Trans.CH', 'ViaProofs.Trans.MH', 'ViaProofs.Trans.CK', 'ViaProofs.Trans.RQ', 'ViaProofs.Trans.RR', 'ViaProofs.Trans.MHA', 'ViaProofs.Trans.RQP']
REQUIRED_THEOREMS = ['Via.C01_frag', 'Via.RR.receive_head_seq', 'Via.RR.receive_head_fail_seq', 'Via.RR.receive_body_seq', "Via.RR.feedHead_flatten'"]
LEVEL = "proof"
LEVEL_TEXT = ("PROOF (Lean 4) that the model of the server's read loop delivers the same requests for every partition of a byte string into reads (C01_frag, fragmentation laws for every parser) and parses well-formed requests correctly in one read; the model's parse_char / parse / message_headers::parse / rx_chunk::parse / rx_request::parse AND request_receiver::receive + clear (with the header look-ups and predicates they call) are PROVED equal to a translation of the current C++ regenerated on every run, under state conditions proved to hold for a fresh receiver and to be preserved, so the equality covers every sequence of reads (RR_reads_translated); in addition the real request_receiver is run against the model on generated requests x partitions (also after a rejected request on the same connection) with a by-construction oracle. Right level: the property quantifies over all messages x all partitions, which only induction reaches. Mapped by name, not translated: unordered_map::find, strtol, std::string::find; the per-read loop of http_server is modelled by hand and tied by the simulation checks.")
RULE = ("well-formed requests (hand-written feature set + random within each configuration's limits) x partitions into reads "
        "(whole, byte-wise, line-wise, every single cut, every pair of cuts for short messages, cuts at structural offsets, "
        "random k-cuts) x configurations (limits, STRICT_CRLF, container, chunk concatenation, HEAD translation); expected "
        "deliveries are computed from the message parts; non-trivial = more than one read; distinct = distinct (config, message, partition)")
TRUSTED_BASE = ["tools/cxx2lean.py + cxx2lean_rx.py + cxx2lean_enc.py (translator, from the current C++ into Lean, of the parse_char / parse state machines, message_headers::parse, rx_chunk::parse, rx_request / rx_response::parse, request_receiver / response_receiver::receive + clear, the header look-ups content_length / is_chunked / close_connection / expect_continue, the predicates keep_alive / missing_host_header / expect_continue / is_head / is_trace, and the encoders incl. are_headers_split and tx_response::is_valid; the model is proved equal to the translation in ViaProofs/Trans; mapped by name, not translated: std::unordered_map::find, strtol-based from_dec_string / from_hex_string, stringstream-based to_hex_string, std::string::find, std::transform(tolower))", "Lean 4.33 kernel", "axioms: propext, Classical.choice, Quot.sound at most",
                "rx_driver harness (real request_receiver driven like http_server::receive_handler) + via_model driver",
                "std::string / std::vector<char> / unordered_map modelled as lists / association lists"]
ASSUMPTIONS = ["the per-read loop of rx_driver is the loop of http_server::receive_handler with an application that answers inside "
               "the handler; the real loop is exercised by the sim_driver checks (C03, C14, C15)"]

FIXED = [
    Request(b"GET", b"/", b"10"),
    Request(b"GET", b"/", b"11", [Header(b"Host", [b"a"])]),
    Request(b"POST", b"/p", b"11", [Header(b"Host", [b"a"]), Header(b"Content-Length", [b"5"])], body=b"hello"),
    Request(b"GET", b"/f", b"11", [Header(b"Host", [b"a"]), Header(b"X-Fold", [b"one", b"two"], fold_ws=[b" "])]),
    Request(b"GET", b"/f", b"11", [Header(b"X-Fold", [b"one", b"two", b"3"], fold_ws=[b"\t", b" "]), Header(b"Host", [b"a"])]),
    Request(b"GET", b"/r", b"11", [Header(b"Host", [b"a"]), Header(b"Accept", [b"x"]), Header(b"ACCEPT", [b"y"])]),
    Request(b"GET", b"/c", b"11", [Header(b"Cookie", [b"a=1"]), Header(b"Host", [b"a"]), Header(b"cookie", [b"b=2"])]),
    Request(b"GET", b"/", b"11", [Header(b"Host", [b"a"], eols=[b"\n"])], line_eol=b"\n", blank_eol=b"\n"),
    Request(b"GET", b"/", b"11", [Header(b"Host", [b"a"], lead=b"  \t")], sp1=b" ", sp2=b"  "),
    Request(b"HEAD", b"/h", b"11", [Header(b"Host", [b"a"])]),
    Request(b"PUT", b"/e", b"11", [Header(b"Host", [b"a"]), Header(b"Empty", [b""], lead=b"")]),
    Request(b"POST", b"/k", b"11", [Header(b"Host", [b"a"]), Header(b"Transfer-Encoding", [b"chunked"])],
            chunks=[Chunk(b"abc"), Chunk(b"0123456789abcdefg", ext=b"x=y")]),
    Request(b"POST", b"/k", b"11", [Header(b"Host", [b"a"]), Header(b"Transfer-Encoding", [b"Chunked"])],
            chunks=[Chunk(b"ab", hexsize=b"002")], last_ext=b"z", trailers=[Header(b"T-One", [b"1"]), Header(b"T-Two", [b"22"])]),
    Request(b"POST", b"/k", b"11", [Header(b"Host", [b"a"]), Header(b"Transfer-Encoding", [b"chunked"])], chunks=[]),
    Request(b"POST", b"/x", b"11", [Header(b"Host", [b"a"]), Header(b"Expect", [b"100-continue"]),
                                    Header(b"Transfer-Encoding", [b"chunked"])], chunks=[Chunk(b"q")]),
    Request(b"POST", b"/z", b"10", [Header(b"Content-Length", [b"0"])]),
    Request(b"GET", b"/\x80\xff?q=1#f", b"12", [Header(b"A.b_c-9", [b"v v  "])]),
    Request(b"POST", b"/l", b"11", [Header(b"Host", [b"a"]), Header(b"Transfer-Encoding", [b"chunked"], eols=[b"\n"])],
            chunks=[Chunk(b"abc", eol=b"\n", data_eol=b"\n")], line_eol=b"\n", blank_eol=b"\n", last_eol=b"\n", trailer_blank_eol=b"\n"),
]


def uses_bare_lf(req):
    data = req.render()
    body_free = data
    for i, c in enumerate(body_free):
        if c == 10 and (i == 0 or body_free[i - 1] != 13):
            return True
    return False


def case_for(cid, cfgname, cont, cc, th, req, parts, tags):
    cfg = G.REQ_CFGS[cfgname]
    lines = [cfg.new_line(cont=cont, th=th, cc=cc)] + G.feed_lines(parts)
    return Case(cid, lines, {"expect": req.expected(cc, th), "nparts": len(parts), "tags": tags,
                             "key": (cfgname, cont, cc, th, req.render(), tuple(len(p) for p in parts))})


def generate(tier, rng):
    cases = []
    n = 0
    quick = tier == "quick"
    for mi, req in enumerate(FIXED):
        data = req.render()
        lf = uses_bare_lf(req)
        cfgs = ["srv"] if lf else ["srv", "srvs"]
        for cfgname in cfgs:
            for (cont, cc, th) in (("s", 1, 1), ("v", 0, 0)):
                modes = ["whole", "bytes", "lines", "cut1", "struct"]
                if len(data) <= (40 if quick else 80) or (not quick and len(data) <= 120 and cont == "s"):
                    modes.append("cut2")
                for mode in modes:
                    for parts in G.partitions(data, rng, mode):
                        cases.append(case_for("c01-f%d-%d" % (mi, n), cfgname, cont, cc, th, req, parts, ["fixed", mode, cfgname]))
                        n += 1
    nrand = 120 if quick else 3000
    for ri in range(nrand):
        cfgname = rng.choice(["srv", "srvs", "mid", "mids", "tiny", "tinys"])
        cfg = G.REQ_CFGS[cfgname]
        req = G.rand_request(rng, cfg, small=True)
        data = req.render()
        cont = rng.choice(["s", "v"])
        cc = rng.below(2)
        th = rng.below(2)
        for mode in ("whole", "bytes", "lines", "struct", "random"):
            for parts in G.partitions(data, rng, mode, k=4):
                cases.append(case_for("c01-r%d-%d" % (ri, n), cfgname, cont, cc, th, req, parts, ["random", mode, cfgname]))
                n += 1
    # two pipelined requests on one connection: both must be delivered, whatever the fragmentation
    for pi in range(30 if quick else 600):
        cfgname = rng.choice(["srv", "srvs", "mid"])
        cfg = G.REQ_CFGS[cfgname]
        r1 = G.rand_request(rng, cfg, small=True, framing=rng.choice(["none", "cl", "chunked"]))
        r2 = G.rand_request(rng, cfg, small=True)
        if r1.expects_continue() or r2.expects_continue():
            continue
        data = r1.render() + r2.render()
        bodyless_first = r1.chunks is None and not any(h.name.lower() == b"content-length" for h in r1.headers)
        for mode in ("whole", "bytes", "lines", "struct", "random"):
            for parts in G.partitions(data, rng, mode, k=3):
                cfgline = cfg.new_line(cont="s", th=1, cc=1)
                # known finding C01-KF1: the head of a body-less request and further bytes in ONE read
                h1 = len(r1.head())
                off = 0
                kf = False
                for p in parts:
                    if off < h1 <= off + len(p) and off + len(p) > h1 and bodyless_first:
                        kf = True
                    off += len(p)
                cases.append(Case("c01-p%d-%d" % (pi, n), [cfgline] + G.feed_lines(parts),
                                  {"expect": r1.expected(1, 1) + r2.expected(1, 1), "nparts": len(parts), "kf_c01": kf,
                                   "tags": ["pipelined", mode, cfgname],
                                   "key": (cfgname, "s", 1, 1, data, tuple(len(p) for p in parts))}))
                n += 1
    # a request that was REJECTED earlier on the same (kept-alive) connection must not influence how the next one is
    # received: bad header line, bad trailer line, header-count limit
    preludes = [b"GET /a HTTP/1.1\r\nHost: a\r\nBad Header\r\n\r\n",
                b"POST /t HTTP/1.1\r\nHost: a\r\nTransfer-Encoding: chunked\r\n\r\n1\r\nx\r\n0\r\nBad Trailer\r\n\r\n",
                b"GET /n HTTP/1.1\r\nHost: a\r\n" + b"".join(b"h%d: v\r\n" % i for i in range(120)) + b"\r\n",
                b"GET /l HTTP/1.1\r\nHost: a\r\nLong: " + b"v" * 70000 + b"\r\n\r\n"]
    for ai in range(24 if quick else 600):
        cfgname = rng.choice(["srv", "srvs"])
        cfg = G.REQ_CFGS[cfgname]
        pre = preludes[ai % len(preludes)]
        r2 = G.rand_request(rng, cfg, small=True)
        if r2.expects_continue():
            continue
        data = r2.render()
        for mode in ("whole", "bytes", "lines", "struct", "cut1"):
            for parts in G.partitions(data, rng, mode, k=3):
                cfgline = cfg.new_line(cont="s", th=1, cc=1)
                cases.append(Case("c01-a%d-%d" % (ai, n), [cfgline] + G.feed_lines([pre]) + G.feed_lines(parts),
                                  {"expect_after": r2.expected(1, 1), "nparts": len(parts) + 1,
                                   "tags": ["after-invalid", mode, cfgname],
                                   "key": (cfgname, "s", 1, 1, pre[:20] + data, tuple(len(p) for p in parts))}))
                n += 1
    # large bodies
    for bi in range(3 if quick else 30):
        cfg = G.REQ_CFGS["srv"]
        size = rng.choice([8192, 65536, 100000])
        req = Request(b"POST", b"/big", b"11", [Header(b"Host", [b"a"]), Header(b"Content-Length", [b"%d" % size])], body=rng.bytes(size))
        data = req.render()
        for parts in G.partitions(data, rng, "random", k=2):
            cases.append(case_for("c01-b%d-%d" % (bi, n), "srv", "v", 1, 1, req, parts, ["big", "random", "srv"]))
            n += 1
    return cases


def oracle(case, out):
    if case.meta.get("expect_after") is not None:
        got = G.deliveries(out[1:])
        if not got or not got[0].startswith("INVALID"):
            return None         # the prelude was not rejected under this configuration: nothing to judge
        if got[1:] != case.meta["expect_after"]:
            return ("a well-formed request that follows a REJECTED one on the same connection is delivered differently "
                    "(split into %d reads):\n expected %s\n got      %s" % (case.meta["nparts"] - 1, case.meta["expect_after"], got[1:]))
        return None
    exp = case.meta.get("expect")
    if exp is None:
        return None
    got = G.deliveries(out[1:])
    if got != exp:
        return "request delivered differently when split into %d reads:\n expected %s\n got      %s" % (
            case.meta.get("nparts", 0), exp, got)
    return None


def classify(case, fail, il, findings):
    if any(f["id"] == "C01-KF1" for f in findings) and case.meta.get("kf_c01"):
        return "C01-KF1"
    return None


def nontrivial(case, out):
    if case.meta.get("nparts", 0) > 1:
        return hash(case.meta["key"])
    return None


def search(rng, binaries, log):
    from vlib import run_parallel
    cases = generate("thorough", rng)
    impl, _ = run_parallel(binaries[HARNESS], cases, "search")
    for c in cases:
        il = impl.get(c.id, [])
        f = oracle(c, il)
        if f:
            return (c, f, il)
    return None
