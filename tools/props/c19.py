"""C19 — over TLS: same guarantees, orderly close_notify, server survives every close."""
import simcommon as S
import gen_sim
from vlib import Case, hx

HARNESS = "sim_driver"
LEAN_MODULES = ["ViaProofs.C19"]
LEMMA_MODULES = ['ViaProofs.ConnLemmas', 'ViaProofs.C09', 'ViaProofs.ConnWrites']
REQUIRED_THEOREMS = ['Via.C19_invariant', 'Via.C19_close_notify_after_write', 'Via.C19_shutdown_keeps_socket_open', 'Via.C19_close_notify_ordering']
LEVEL = "proof"
LEVEL_TEXT = ('PARTIAL: all connection-layer theorems are proved for both adaptor flavours, plus close_notify ordering over every TLS-flavour history; OpenSSL/asio behaviour is modelled by the adaptor contract and validated by real TLS loopback runs (clean close, abrupt close, reset mid-response). Known finding C19-KF1 (use-after-free when the peer resets while a large response is being written).')
TRUSTED_BASE = S.SIM_TRUSTED
ASSUMPTIONS = S.SIM_ASSUMPTIONS
compare = S.compare

PROP = "C19"

RULE = ("the histories of the plain-TCP properties with the ssl adaptor flavour (asynchronous handshake, shutdown = cancel pending "
        "operations + asynchronous close_notify) x who closes first (server after the response, peer close_notify = ssl_shutdown "
        "error, abrupt close = eof / ssl_short / reset) x pending writes; oracle: close_notify (adaptor shutdown) follows the "
        "completion of the last response write and precedes close; lifecycle and retention as C10; no abort; non-trivial = the "
        "connection ends during the history")


def generate(tier, rng):
    cases = S.corpus_cases("C19")
    cases += S.make_cases("c19", tier, rng, 450, 15000, force={"flavour": "ssl"})
    return cases


def kf_cases():
    import os, json
    root = os.path.dirname(os.path.dirname(os.path.dirname(os.path.abspath(__file__))))
    cases = []
    for f in json.load(open(os.path.join(root, "known_findings.json")))["findings"]:
        if f["property"] != PROP or f.get("status") != "open":
            continue
        txt = open(os.path.join(root, f["witness"])).read()
        lines = [l for l in txt.splitlines() if l and not l.startswith("#") and not l.startswith("case ")]
        opts = {}
        for tok in lines[0].split()[1:]:
            a, b = tok.split("=", 1)
            opts[a] = b
        opts.setdefault("flavour", "tcp")
        opts.setdefault("policy", "sync")
        cases.append(Case("kf-" + f["id"], lines, {"opts": opts, "kf_witness": f["id"], "complete": True, "tags": ["kf-witness"]}))
    return cases


def _load_findings():
    import os, json
    root = os.path.dirname(os.path.dirname(os.path.dirname(os.path.abspath(__file__))))
    return [f for f in json.load(open(os.path.join(root, "known_findings.json")))["findings"] if f["property"] == PROP]


FINDINGS_ALL = _load_findings()


def classify(case, fail, il, findings):
    ids = set(f["id"] for f in findings)
    # real TLS loopback run: the peer resets the connection while a large response is being written
    if "C19-KF1" in ids and case.id == "extra" and case.lines and "net_driver_tls" in case.lines[0] \
            and "mode=midresp" in case.lines[0] and "the server crashed" in fail:
        return "C19-KF1"
    return None


def oracle(case, out):
    return S.oracle_c19(case, S.cut(case, out))


def nontrivial(case, out):
    return case.id if len(case.lines) > 4 else None


def search(rng, binaries, log):
    from vlib import run_parallel
    cases = generate("thorough", rng)[:4000]
    impl, _ = run_parallel(binaries[HARNESS], cases, "search")
    for c in cases:
        il = impl.get(c.id, [])
        f = oracle(c, il)
        if f and not classify(c, f, il, FINDINGS_ALL):
            return (c, f, il)
    return None


def extra_checks(tier, rng, binaries, log):
    return (S.net_bigbody_checks(tier, binaries, log, ['net_driver_tls'], PROP) +
            S.net_abrupt_checks(tier, binaries, log, ['net_driver_tls'], PROP) +
            S.net_twoshut_checks(tier, binaries, log, ['net_driver_tls'], PROP) +
            S.net_lateafter_checks(tier, binaries, log, ['net_driver_tls'], PROP))
