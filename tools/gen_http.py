"""Structure-aware HTTP message generators with expected deliveries known by construction.

Nothing here consults the Lean model or the library: a message is built from parts, the expected
result is computed from the parts.  Used by the C01, C02, C05, C06, C07, C08 and C15 plug-ins.
"""
from vlib import hx

UPPER = b"ABCDEFGHIJKLMNOPQRSTUVWXYZ"
NAMECH = b"abcdefghijklmnopqrstuvwxyzABCDEFGHIJKLMNOPQRSTUVWXYZ0123456789-_."
VALCH = bytes(c for c in range(33, 127))


class Cfg:
    """a receiver configuration instantiated in rx_driver"""

    def __init__(self, a, b, hn, hl, ll, ws, strict, kind="rq"):
        self.a, self.b, self.hn, self.hl, self.ll, self.ws, self.strict, self.kind = a, b, hn, hl, ll, ws, strict, kind

    def new_line(self, cont="s", maxc=1048576, maxk=1048576, th=1, cc=1):
        op = "rqnew" if self.kind == "rq" else "rsnew"
        s = "%s a=%d b=%d hn=%d hl=%d ll=%d ws=%d strict=%d cont=%s maxc=%d maxk=%d" % (
            op, self.a, self.b, self.hn, self.hl, self.ll, self.ws, 1 if self.strict else 0, cont, maxc, maxk)
        if self.kind == "rq":
            s += " th=%d cc=%d" % (th, cc)
        return s


REQ_CFGS = {
    "srv": Cfg(8190, 8, 100, 65534, 1024, 8, False),
    "srvs": Cfg(8190, 8, 100, 65534, 1024, 8, True),
    "tiny": Cfg(8, 4, 3, 40, 24, 2, False),
    "tinys": Cfg(8, 4, 3, 40, 24, 2, True),
    "mid": Cfg(64, 8, 8, 200, 64, 4, False),
    "mids": Cfg(64, 8, 8, 200, 64, 4, True),
    # many header lines allowed, small cumulative header length: the length limit must be what stops a header flood
    "wide": Cfg(64, 8, 60, 100, 64, 4, False),
}
LONG_MAX = 9223372036854775807
RESP_CFGS = {
    "cli": Cfg(65534, 65534, 65534, LONG_MAX, 65534, 254, False, "rs"),
    "clis": Cfg(65534, 65534, 65534, LONG_MAX, 65534, 254, True, "rs"),
    "ctiny": Cfg(999, 16, 3, 40, 24, 2, False, "rs"),
    "ctinys": Cfg(999, 16, 3, 40, 24, 2, True, "rs"),
}



# Connection option lists (RFC 7230 6.1: comma separated, optional whitespace around the comma, case-insensitive)
CONNECTION_VALUES = [b"close", b"Close", b"keep-alive", b"keep-alive, CLOSE", b"upgrade", b"TE,close", b"close,TE",
                     b"close ,TE", b"keep-alive ,\tclose", b"TE, close, upgrade", b"Keep-Alive,Upgrade"]


def has_close_option(value):
    """does a Connection field value (lines already joined with ',') list the `close` option — by the RFC's list syntax,
    independent of how the library looks for it"""
    return any(tok.strip(b" \t").lower() == b"close" for tok in value.split(b","))

def hdr_map_str(pairs):
    """canonical header-map text from (lower-case name, value) pairs in arrival order"""
    m = {}
    order = []
    for n, v in pairs:
        if n in m:
            m[n] = m[n] + (b";" if b"cookie" in n else b",") + v
        else:
            m[n] = v
            order.append(n)
    if not m:
        return "-", m
    return ",".join("%s:%s" % (hx(n), hx(m[n])) for n in sorted(m)), m


class Header:
    """one header field as written on the wire: name, leading blanks, value lines (folds), line end"""

    def __init__(self, name, lines, lead=b" ", eols=None, fold_ws=None):
        self.name = name
        self.lines = lines                  # value split over physical lines (>= 1)
        self.lead = lead                    # blanks between ':' and the value
        self.eols = eols or [b"\r\n"] * len(lines)
        self.fold_ws = fold_ws or [b" "] * (len(lines) - 1)

    def render(self):
        out = self.name + b":" + self.lead + self.lines[0] + self.eols[0]
        for i in range(1, len(self.lines)):
            out += self.fold_ws[i - 1] + self.lines[i] + self.eols[i]
        return out

    def value(self):
        return b" ".join(self.lines)

    def wire_len(self):
        return len(self.render())

    def blanks(self):
        return len(self.lead) + sum(len(w) for w in self.fold_ws)


class Chunk:
    def __init__(self, data, hexsize=None, lead=b"", ext=None, ext_ws=b" ", eol=b"\r\n", data_eol=b"\r\n"):
        self.data = data
        self.hexsize = hexsize if hexsize is not None else (b"%x" % len(data))
        self.lead = lead
        self.ext = ext
        self.ext_ws = ext_ws
        self.eol = eol
        self.data_eol = data_eol

    def render(self):
        out = self.lead + self.hexsize
        if self.ext is not None:
            out += b";" + self.ext_ws + self.ext
        out += self.eol
        if self.data:
            out += self.data + self.data_eol
        return out


class Request:
    def __init__(self, method=b"GET", target=b"/", version=b"11", headers=None, body=b"", chunks=None,
                 trailers=None, line_eol=b"\r\n", blank_eol=b"\r\n", sp1=b" ", sp2=b" ", last_ext=None,
                 trailer_blank_eol=b"\r\n", last_eol=b"\r\n", last_hex=b"0"):
        self.method, self.target, self.version = method, target, version
        self.headers = headers or []
        self.body = body
        self.chunks = chunks            # None = not chunked
        self.trailers = trailers or []
        self.line_eol, self.blank_eol, self.sp1, self.sp2 = line_eol, blank_eol, sp1, sp2
        self.last_ext, self.trailer_blank_eol, self.last_eol, self.last_hex = last_ext, trailer_blank_eol, last_eol, last_hex

    def head(self):
        out = self.method + self.sp1 + self.target + self.sp2 + b"HTTP/" + self.version[0:1] + b"." + self.version[1:2] + self.line_eol
        for h in self.headers:
            out += h.render()
        return out + self.blank_eol

    def render(self):
        out = self.head()
        if self.chunks is None:
            return out + self.body
        for c in self.chunks:
            out += c.render()
        out += self.last_hex
        if self.last_ext is not None:
            out += b"; " + self.last_ext
        out += self.last_eol
        for t in self.trailers:
            out += t.render()
        return out + self.trailer_blank_eol

    # ---- expectations -------------------------------------------------------------------
    def hdr_pairs(self):
        return [(h.name.lower(), h.value()) for h in self.headers]

    def keep_alive(self):
        _, m = hdr_map_str(self.hdr_pairs())
        early = self.version[0:1] == b"0" or self.version == b"10"
        return (not early) and not has_close_option(m.get(b"connection", b""))

    def expects_continue(self):
        _, m = hdr_map_str(self.hdr_pairs())
        early = self.version[0:1] == b"0" or self.version == b"10"
        return (not early) and b"100-continue" in m.get(b"expect", b"").lower()

    def valid_line(self, body, th=1):
        hs, _ = hdr_map_str(self.hdr_pairs())
        is_head = self.method == b"HEAD"
        m = b"GET" if (is_head and th) else self.method
        return "VALID m=%s u=%s v=%s h=%s b=%s head=%d chunked=%d ka=%d" % (
            hx(m), hx(self.target), hx(self.version), hs, hx(body), 1 if is_head else 0,
            0 if self.chunks is None else 1, 1 if self.keep_alive() else 0)

    def expected(self, cc=1, th=1):
        """canonical delivery lines (INCOMPLETE results are not deliveries)"""
        if self.chunks is None:
            return [self.valid_line(self.body, th)]
        out = []
        if self.expects_continue():
            # delivered to the expect-continue handler with the request as parsed so far
            out.append("EXPECT_CONTINUE" + self.valid_line(b"", th=0)[5:].replace("head=1", "head=0"))
        if cc:
            out.append(self.valid_line(b"".join(c.data for c in self.chunks), th))
            return out
        if not self.expects_continue():
            # (with Expect the request is passed to the application through the expect-continue
            #  event; request_receiver then goes straight on to the chunks — pinned by the
            #  repository's own test TestRequestReceiver/ValidPostChunk3)
            out.append(self.valid_line(b"", th=0).replace("head=1", "head=0"))
        for c in self.chunks:
            out.append("CHUNK sz=%d ext=%s d=%s t=- last=0" % (len(c.data), hx(c.ext or b""), hx(c.data)))
        ts, _ = hdr_map_str([(t.name.lower(), t.value()) for t in self.trailers])
        out.append("CHUNK sz=0 ext=%s d=- t=%s last=1" % (hx(self.last_ext or b""), ts))
        return out


class Response:
    def __init__(self, status=200, reason=b"OK", version=b"11", headers=None, body=b"", chunks=None, trailers=None,
                 line_eol=b"\r\n", blank_eol=b"\r\n", last_ext=None, sp=b" ", sp2=b" "):
        self.status, self.reason, self.version = status, reason, version
        self.headers = headers or []
        self.body = body
        self.chunks = chunks
        self.trailers = trailers or []
        self.line_eol, self.blank_eol, self.last_ext, self.sp, self.sp2 = line_eol, blank_eol, last_ext, sp, sp2

    def head(self):
        out = b"HTTP/" + self.version[0:1] + b"." + self.version[1:2] + self.sp + (b"%d" % self.status) + self.sp2 + self.reason + self.line_eol
        for h in self.headers:
            out += h.render()
        return out + self.blank_eol

    def render(self):
        out = self.head()
        if self.chunks is None:
            return out + self.body
        for c in self.chunks:
            out += c.render()
        out += b"0"
        if self.last_ext is not None:
            out += b"; " + self.last_ext
        out += b"\r\n"
        for t in self.trailers:
            out += t.render()
        return out + b"\r\n"

    def hdr_pairs(self):
        return [(h.name.lower(), h.value()) for h in self.headers]

    def keep_alive(self):
        _, m = hdr_map_str(self.hdr_pairs())
        early = self.version[0:1] <= b"0" or self.version == b"10"
        return (not early) and not has_close_option(m.get(b"connection", b""))

    def valid_line(self, body):
        hs, _ = hdr_map_str(self.hdr_pairs())
        return "VALID st=%d r=%s v=%s h=%s b=%s chunked=%d ka=%d" % (
            self.status, hx(self.reason), hx(self.version), hs, hx(body), 0 if self.chunks is None else 1,
            1 if self.keep_alive() else 0)

    def expected(self):
        if self.chunks is None:
            return [self.valid_line(self.body)]
        out = [self.valid_line(b"")]
        for c in self.chunks:
            out.append("CHUNK sz=%d ext=%s d=%s t=- last=0" % (len(c.data), hx(c.ext or b""), hx(c.data)))
        ts, _ = hdr_map_str([(t.name.lower(), t.value()) for t in self.trailers])
        out.append("CHUNK sz=0 ext=%s d=- t=%s last=1" % (hx(self.last_ext or b""), ts))
        return out


# --------------------------------------------------------------------------------------------
# random well-formed messages within a configuration's limits

def rand_eol(rng, cfg):
    return b"\n" if (not cfg.strict and rng.chance(1, 5)) else b"\r\n"


def rand_token(rng, lo, hi, alphabet=NAMECH):
    return rng.bytes(rng.range(lo, hi), alphabet)


def rand_header(rng, cfg, budget_line, name=None, value=None, allow_fold=True):
    """a header whose wire length fits budget_line (the per-line limit counts the whole folded field)"""
    name = name if name is not None else rand_token(rng, 1, min(10, max(1, budget_line // 4)))
    lead = rng.bytes(rng.range(0, min(cfg.ws, 2)), b" \t")
    room = budget_line - len(name) - 1 - len(lead) - 2
    if value is None:
        n = rng.range(0, max(0, min(room, 24)))
        value = rng.bytes(n, VALCH + b"  ")
        value = value.lstrip(b" \t")
    lines = [value]
    fold_ws = []
    if allow_fold and rng.chance(1, 5) and room - len(value) > 6 and len(lead) < cfg.ws:
        extra = rng.bytes(rng.range(1, 4), VALCH)
        w = rng.bytes(rng.range(1, cfg.ws - len(lead)), b" \t")
        if len(value) + len(extra) + len(w) + 2 <= room:
            lines.append(extra)
            fold_ws.append(w)
    eols = [rand_eol(rng, cfg) for _ in lines]
    return Header(name, lines, lead, eols, fold_ws)


def rand_request(rng, cfg, maxc=1048576, maxk=1048576, framing=None, method=None, version=None, small=False):
    method = method or rng.choice([b"GET", b"POST", b"PUT", b"HEAD", b"DELETE", b"OPTIONS",
                                   rand_token(rng, 1, cfg.b, UPPER), rand_token(rng, cfg.b, cfg.b, UPPER)])
    if method == b"TRACE":
        method = b"TRACK"
    if len(method) > cfg.b:
        method = method[:cfg.b]
    tlen = rng.choice([1, 2, 5, min(cfg.a, 12), cfg.a if cfg.a <= 64 else 20])
    target = b"/" + rng.bytes(max(0, tlen - 1), VALCH + bytes(range(128, 140)))
    version = version or rng.choice([b"11", b"11", b"10", b"12", b"20", b"09"])
    framing = framing or rng.choice(["none", "cl", "cl", "chunked", "chunked"])
    if method == b"HEAD" and framing != "none":
        framing = "none"
    headers = []
    nlines_budget = cfg.hn
    total_budget = cfg.hl
    req = Request(method, target, version, line_eol=rand_eol(rng, cfg), blank_eol=rand_eol(rng, cfg))
    if rng.chance(1, 4) and cfg.ws >= 1:
        # runs of blanks before AND after the target, each within the whitespace limit on its own
        req.sp1 = rng.bytes(rng.choice([1, cfg.ws, max(1, cfg.ws - 1), rng.range(1, cfg.ws)]), b" \t")
        req.sp2 = rng.bytes(rng.choice([1, cfg.ws, max(1, cfg.ws - 1), rng.range(1, cfg.ws)]), b" \t")

    def add(h):
        nonlocal nlines_budget, total_budget
        cost = len(h.name) + len(h.value())
        if nlines_budget < 1 or cost > total_budget or h.wire_len() > cfg.ll or h.blanks() > cfg.ws:
            return False
        headers.append(h)
        nlines_budget -= 1
        total_budget -= cost
        return True

    if version == b"11":
        add(Header(rng.choice([b"Host", b"host", b"HOST"]), [rng.choice([b"a", b"x.y"])],
                   b" " if cfg.ws >= 1 else b"", [rand_eol(rng, cfg)]))
    body = b""
    chunks = None
    trailers = []
    if framing == "cl":
        n = rng.choice([0, 1, 2, 7, 30]) if small else rng.choice([0, 1, 5, 17, 100, 1000])
        n = min(n, maxc)
        body = rng.bytes(n)
        if not add(Header(rng.choice([b"Content-Length", b"content-length"]), [b"%d" % n], b" " if cfg.ws >= 1 else b"", [rand_eol(rng, cfg)])):
            body = b""
            framing = "none"
    elif framing == "chunked":
        if add(Header(b"Transfer-Encoding", [rng.choice([b"chunked", b"Chunked", b"gzip, chunked"])], b" " if cfg.ws >= 1 else b"", [rand_eol(rng, cfg)])):
            chunks = []
            for _ in range(rng.range(0, 3)):
                n = rng.choice([1, 2, 9, 16, 31]) if small else rng.choice([1, 3, 16, 255, 300])
                n = min(n, maxk)
                data = rng.bytes(n)
                hexs = b"%x" % n
                if rng.chance(1, 4):
                    hexs = hexs.upper()
                if rng.chance(1, 6):
                    hexs = b"0" * rng.range(1, 16 - len(hexs)) + hexs
                ext = None
                extws = b""
                if rng.chance(1, 3):
                    ext = rng.bytes(rng.range(0, 5), VALCH)
                    extws = rng.bytes(rng.range(0, min(cfg.ws, 2)), b" \t")
                lead = rng.bytes(rng.range(0, min(cfg.ws, 1)), b" ")
                c = Chunk(data, hexs, lead, ext, extws, rand_eol(rng, cfg), rand_eol(rng, cfg))
                if len(c.lead + c.hexsize + (b";" + c.ext_ws + c.ext if ext is not None else b"") + c.eol) <= cfg.ll:
                    chunks.append(c)
            if rng.chance(1, 3):
                req.last_ext = rng.bytes(rng.range(1, 4), VALCH)
            for _ in range(rng.choice([0, 0, 1, 2])):
                t = rand_header(rng, cfg, cfg.ll)
                if len(trailers) < cfg.hn and t.blanks() <= cfg.ws and sum(len(x.name) + len(x.value()) for x in trailers) + len(t.name) + len(t.value()) <= cfg.hl:
                    trailers.append(t)
            req.trailer_blank_eol = rand_eol(rng, cfg)
            req.last_eol = rand_eol(rng, cfg)
        else:
            framing = "none"
    # extra headers
    for _ in range(rng.choice([0, 1, 2, 3, 6])):
        kind = rng.below(8)
        if kind == 0 and headers:
            h = rand_header(rng, cfg, cfg.ll, name=rng.choice(headers).name)
            if h.name.lower() in (b"content-length", b"transfer-encoding", b"host", b"expect", b"connection"):
                continue
        elif kind == 1:
            h = rand_header(rng, cfg, cfg.ll, name=b"Cookie")
        elif kind == 2:
            h = Header(b"Connection", [rng.choice(CONNECTION_VALUES)], b" " if cfg.ws >= 1 else b"", [rand_eol(rng, cfg)])
            # a second Connection line is legal (the list is split over two field lines) but kept rare
            if any(x.name.lower() == b"connection" for x in headers) and not rng.chance(1, 3):
                continue
        else:
            h = rand_header(rng, cfg, cfg.ll)
            if h.name.lower() in (b"content-length", b"transfer-encoding", b"host", b"expect", b"connection"):
                continue
        add(h)
    rng.shuffle(headers)
    req.headers = headers
    req.body = body
    req.chunks = chunks
    req.trailers = trailers
    return req


def rand_response(rng, cfg, framing=None, small=False):
    status = rng.choice([200, 200, 404, 100, 204, 301, 500, 999, min(cfg.a, 65534)])
    rlen = rng.choice([0, 2, 5, min(cfg.b, 16)])
    reason = rng.bytes(rlen, VALCH + b" ").lstrip(b" \t")
    version = rng.choice([b"11", b"10", b"12"])
    framing = framing or rng.choice(["cl", "cl", "chunked", "cl0"])
    headers = []
    nl, tb = cfg.hn, cfg.hl
    resp = Response(status, reason, version, line_eol=rand_eol(rng, cfg), blank_eol=rand_eol(rng, cfg))
    if rng.chance(1, 4) and cfg.ws >= 1:
        # runs of blanks before the status AND before the reason, each within the whitespace limit on its own
        resp.sp = rng.bytes(rng.choice([1, cfg.ws, max(1, cfg.ws - 1), rng.range(1, cfg.ws)]), b" \t")
        resp.sp2 = rng.bytes(rng.choice([1, cfg.ws, max(1, cfg.ws - 1), rng.range(1, cfg.ws)]), b" \t")

    def add(h):
        nonlocal nl, tb
        cost = len(h.name) + len(h.value())
        if nl < 1 or cost > tb or h.wire_len() > cfg.ll or h.blanks() > cfg.ws:
            return False
        headers.append(h)
        nl -= 1
        tb -= cost
        return True

    body = b""
    chunks = None
    trailers = []
    if framing in ("cl", "cl0"):
        n = 0 if framing == "cl0" else (rng.choice([1, 2, 7, 30]) if small else rng.choice([1, 5, 100, 1000]))
        body = rng.bytes(n)
        if not add(Header(b"Content-Length", [b"%d" % n], b" ", [rand_eol(rng, cfg)])):
            return None
    else:
        if not add(Header(b"Transfer-Encoding", [b"chunked"], b" ", [rand_eol(rng, cfg)])):
            return None
        chunks = []
        for _ in range(rng.range(0, 3)):
            n = rng.choice([1, 2, 9, 16]) if small else rng.choice([1, 3, 16, 255])
            ext = rng.bytes(rng.range(0, 4), VALCH) if rng.chance(1, 3) else None
            chunks.append(Chunk(rng.bytes(n), None, b"", ext, b" " if ext is not None else b"", rand_eol(rng, cfg), rand_eol(rng, cfg)))
        if rng.chance(1, 3):
            resp.last_ext = rng.bytes(rng.range(1, 4), VALCH)
        for _ in range(rng.choice([0, 0, 1])):
            t = rand_header(rng, cfg, cfg.ll)
            if t.blanks() <= cfg.ws and len(t.name) + len(t.value()) <= cfg.hl:
                trailers.append(t)
    for _ in range(rng.choice([0, 1, 2])):
        h = rand_header(rng, cfg, cfg.ll)
        if h.name.lower() in (b"content-length", b"transfer-encoding", b"connection"):
            continue
        add(h)
    rng.shuffle(headers)
    resp.headers, resp.body, resp.chunks, resp.trailers = headers, body, chunks, trailers
    return resp


# --------------------------------------------------------------------------------------------
# partitions of a byte string into consecutive non-empty reads

def cuts_to_parts(data, cuts):
    parts = []
    prev = 0
    for c in sorted(set(cuts)):
        if 0 < c < len(data):
            parts.append(data[prev:c])
            prev = c
    parts.append(data[prev:])
    return [p for p in parts if p]


def interesting_offsets(data):
    """offsets around line structure: before CR, between CR and LF, after LF, before a fold"""
    offs = set()
    for i, c in enumerate(data):
        if c == 13:
            offs.update((i, i + 1))
        if c == 10:
            offs.update((i, i + 1, i + 2))
        if c == 58 or c == 59:
            offs.update((i, i + 1))
    return sorted(o for o in offs if 0 < o < len(data))


def partitions(data, rng, mode, k=3):
    """yield lists of parts for the requested family"""
    n = len(data)
    if mode == "whole":
        yield [data]
    elif mode == "bytes":
        yield [data[i:i + 1] for i in range(n)]
    elif mode == "lines":
        parts = []
        cur = b""
        for b in data:
            cur += bytes([b])
            if b == 10:
                parts.append(cur)
                cur = b""
        if cur:
            parts.append(cur)
        yield parts
    elif mode == "cut1":
        for c in range(1, n):
            yield cuts_to_parts(data, [c])
    elif mode == "cut2":
        for c in range(1, n):
            for d in range(c + 1, n):
                yield cuts_to_parts(data, [c, d])
    elif mode == "struct":
        offs = interesting_offsets(data)
        for c in offs:
            yield cuts_to_parts(data, [c])
        for i, c in enumerate(offs):
            for d in offs[i + 1:i + 6]:
                yield cuts_to_parts(data, [c, d])
    elif mode == "random":
        for _ in range(k):
            m = rng.range(1, min(8, max(1, n - 1)))
            yield cuts_to_parts(data, [rng.range(1, max(1, n - 1)) for _ in range(m)])


def feed_lines(parts):
    return ["feed " + hx(p) for p in parts]


def deliveries(out_lines):
    """canonical deliveries from a driver transcript: drop INCOMPLETE, `used=`, and `code=` except on INVALID"""
    res = []
    for l in out_lines:
        if not l.startswith("rx="):
            if l.startswith("abort"):
                res.append(l)
            continue
        toks = l.split(" ")
        kind = toks[0][3:]
        if kind == "INCOMPLETE":
            continue
        rest = [t for t in toks[1:] if not t.startswith("used=")]
        if kind == "INVALID":
            res.append("INVALID " + " ".join(t for t in rest if t.startswith("code=")))
        else:
            res.append(kind + " " + " ".join(t for t in rest if not t.startswith("code=")))
    return [r.strip() for r in res]
