#!/usr/bin/env python3
"""Mode 6 of the source-to-Lean translator: the decision chain of `request_router::handle_request` (http/request_router.hpp).

`GenRouter.handleRequest found method chal : GenRouter.Out` over what the function reads: `found` = the result of
`find_route(uri.path(), parameters)` (route + bound parameters; `find_route`, `request_uri` and `get_route_parameters` are
modelled by hand and tied by the C16 correspondence, not translated), `method` = `request.method()`, `chal a` = what
`auth_ptr->authenticate(request)` returns for authenticator `a`.  ViaProofs/Trans/RT.lean proves the model's
`Router.handleRequest` equal to it.  Subset: exactly the statement forms of that chain (look-up, test against cend(),
status response with one added header, optional authenticator, handler call); anything else raises Unsupported.
"""
import re

import cxx2lean_enc as E
from cxx2lean import Unsupported
import cxx2lean_rx as R

REL = "http/request_router.hpp"
SIG = (r"\bvirtual\s+tx_response\s+handle_request\s*\(\s*R\s+const&\s+request\s*,\s*Container\s+const&\s+request_body\s*,"
       r"\s*Container&\s+response_body\s*\)\s*const")


def status_name(e):
    if e[0] == "id" and e[1].startswith("response_status::code::"):
        return e[1].rsplit("::", 1)[1]
    if e[0] == "call" and e[1] == ("id", "tx_response") and len(e[2]) == 1:
        return status_name(e[2][0])
    raise Unsupported("status expression %r" % (e,))


class Gen:
    def __init__(self):
        self.route = None      # iterator variable bound to the found route
        self.params = None
        self.entry = None      # iterator variable bound to the method entry

    def response_block(self, stmts):
        """`tx_response r(CODE); r.add_header(H, V); return r;` or `return tx_response(CODE);`"""
        if len(stmts) == 1 and stmts[0][0] == "return":
            return '.status "%s" []' % status_name(stmts[0][1])
        if len(stmts) == 3 and stmts[0][0] == "ldecl" and stmts[2] == ("return", ("id", stmts[0][2])) and stmts[1][0] == "expr":
            r = stmts[0][2]
            c = stmts[1][1]
            if c[0] == "call" and c[1] == ("member", ("id", r), "add_header") and len(c[2]) == 2 and c[2][0][0] == "id" \
                    and c[2][0][1].startswith("header_field::HEADER_"):
                return '.status "%s" [("%s", %s)]' % (status_name(stmts[0][3]), c[2][0][1].rsplit("::", 1)[1], self.val(c[2][1]))
        raise Unsupported("response block %r" % (stmts,))

    def val(self, e):
        if self.route and e == ("call", ("member", ("id", self.route), "allowed_methods"), []):
            return "%s.allowedMethods" % self.route
        if e == ("id", "challenge"):
            return "challenge"
        raise Unsupported("header value %r" % (e,))

    def blk(self, s):
        return s[1] if s[0] == "block" else [s]

    def seq(self, stmts):
        if not stmts:
            raise Unsupported("control reaches the end of handle_request")
        s, rest = stmts[0], stmts[1:]
        if s[0] == "ldecl" and s[2] == "uri" and s[3] == ("call", ("member", ("id", "request"), "uri"), []):
            return self.seq(rest)
        if s[0] == "ldecl" and s[3] == ("call", ("id", "Parameters"), []):
            self.params = s[2]
            return self.seq(rest)
        if s[0] == "ldecl" and s[3] == ("call", ("id", "find_route"), [("call", ("member", ("id", "uri"), "path"), []), ("id", self.params)]):
            self.route = s[2]
            nxt = rest[0] if rest else None
            if not (nxt and nxt[0] == "if" and nxt[3] is None and
                    nxt[1] == ("cmp", "==", ("id", self.route), ("call", ("member", ("id", "routes_"), "cend"), []))):
                raise Unsupported("find_route result not tested against routes_.cend() at once")
            return "match found with | none => %s | some (%s, %s) => %s" % (
                self.response_block(self.blk(nxt[2])), self.route, self.params, self.seq(rest[1:]))
        if s[0] == "ldecl" and self.route and s[3] == ("call", ("member", ("member", ("id", self.route), "method_handlers"), "find"),
                                                        [("call", ("member", ("id", "request"), "method"), [])]):
            self.entry = s[2]
            nxt = rest[0] if rest else None
            if not (nxt and nxt[0] == "if" and nxt[3] is not None and len(rest) == 1 and
                    nxt[1] == ("cmp", "==", ("id", self.entry), ("call", ("member", ("member", ("id", self.route), "method_handlers"), "cend"), []))):
                raise Unsupported("method look-up not followed by a final if/else on cend()")
            return "match Router.mapFind method %s.methods with | none => %s | some %s => %s" % (
                self.route, self.response_block(self.blk(nxt[2])), self.entry, self.seq(self.blk(nxt[3])))
        if s[0] == "if" and self.entry and s[3] is None and s[1] == ("member", ("member", ("id", self.entry), "second"), "auth_ptr"):
            b = self.blk(s[2])
            if not (len(b) == 2 and b[0][0] == "ldecl" and b[0][1] == "std::string" and b[0][2] == "challenge" and
                    b[0][3] == ("call", ("member", ("member", ("member", ("id", self.entry), "second"), "auth_ptr"), "authenticate"), [("id", "request")])
                    and b[1][0] == "if" and b[1][3] is None and b[1][1] == ("not", ("call", ("member", ("id", "challenge"), "empty"), []))):
                raise Unsupported("authentication block %r" % (b,))
            fall = self.seq(rest)
            return ("match %s.auth with | some a => (let challenge : Bytes := chal a; if !challenge.isEmpty then %s else %s) | none => %s"
                    % (self.entry, self.response_block(self.blk(b[1][2])), fall, fall))
        if s[0] == "return" and self.entry and not rest and s[1] == ("call", ("member", ("member", ("id", self.entry), "second"), "handler"),
                                                                    [("id", "request"), ("id", self.params), ("id", "request_body"), ("id", "response_body")]):
            return ".handler %s.handler %s" % (self.entry, self.params)
        raise Unsupported("statement %r" % (s,))


def route_ctor():
    """`Route::Route(path_str, method_handler)` (members path / search_path initialised from path_str, then the text from the
    first ':' on erased from search_path) and `Route::has_parameters`"""
    t = R.strip_comments(R.text_of(REL))
    m = re.search(r"Route\s*\(\s*std::string\s+const&\s+path_str\s*,\s*MethodHandlers_value_type\s+method_handler\s*\)\s*:\s*path\s*\(\s*path_str\s*\)"
                  r"\s*,\s*search_path\s*\(\s*path_str\s*\)\s*,\s*method_handlers\s*\{\s*method_handler\s*\}\s*\{", t)
    if not m:
        raise Unsupported("Route constructor: signature / member initialisers not as expected")
    i = j = m.end() - 1
    d = 0
    while j < len(t):
        if t[j] == "{":
            d += 1
        elif t[j] == "}":
            d -= 1
            if d == 0:
                break
        j += 1
    st = E.parse_body(t[i:j + 1])
    if not (len(st) == 2 and st[0][0] == "ldecl" and st[0][1] == "auto"
            and st[0][3][0] == "call" and st[0][3][1] == ("member", ("id", "search_path"), "find") and len(st[0][3][2]) == 1 and st[0][3][2][0][0] == "char"
            and st[1] == ("if", ("cmp", "!=", ("id", st[0][2]), ("id", "std::string::npos")),
                          ("expr", ("call", ("member", ("id", "search_path"), "erase"), [("id", st[0][2])])), None)):
        raise Unsupported("Route constructor body %r" % (st,))
    v, ch = st[0][2], st[0][3][2][0][1]
    out = ("/-- `Route::search_path` as the constructor leaves it: `erase(pos)` removes everything from `pos` on -/\n"
           "def GenRouter.searchPath (path_str : Bytes) : Bytes :=\n  let search_path : Bytes := path_str; let %s : Option Nat := findByte %d search_path; "
           "match %s with | some %s => search_path.take %s | none => search_path\n\n" % (v, ch, v, v, v))
    hp = E.parse_body(R.strip_comments(E.fn_body(REL, r"\bbool\s+has_parameters\s*\(\s*\)\s*const", "request_router")))
    if hp != [("return", ("cmp", "!=", ("call", ("member", ("id", "path"), "size"), []), ("call", ("member", ("id", "search_path"), "size"), [])))]:
        raise Unsupported("has_parameters %r" % (hp,))
    out += "def GenRouter.hasParameters (path search_path : Bytes) : Bool :=\n  path.length != search_path.length\n"
    return out


def translate_router():
    b = R.strip_comments(E.fn_body(REL, SIG, "request_router")).replace("->", ".")
    b = re.sub(r"\b(request_uri|tx_response)\s+(\w+)\s*\(", r"auto \2(", b)
    b = re.sub(r"\bParameters\s+(\w+)\s*;", r"auto \1(Parameters());", b)
    term = Gen().seq(E.parse_body(b))
    out = ["import ViaModel.Router\n" + R.HEADER % ("request_router::handle_request", "http/request_router.hpp", "RT")]
    out.append("/-- what `handle_request` returns: a status response with the headers it adds, or the call of a registered handler -/\n"
               "inductive GenRouter.Out where\n  | status (code : String) (headers : List (String × Bytes))\n"
               "  | handler (id : Nat) (params : Router.Params)\nderiving Repr, DecidableEq\n")
    out.append("def GenRouter.handleRequest (found : Option (Router.Route × Router.Params)) (method : Bytes) (chal : Nat → Bytes) : GenRouter.Out :=\n  %s\n" % term)
    out.append(route_ctor())
    out.append("end Via\n")
    return "\n".join(out)


if __name__ == "__main__":
    print(translate_router())
