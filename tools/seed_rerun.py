#!/usr/bin/env python3
"""seed_rerun.py [seed id ...] — for every change kept under /verif/seeded/<id>/: git -C /repo apply patch.diff, run the quick
check of the property it was written against (plus any listed in meta.json "also"), record verdict lines and the head of the
replay in meta.json under "current", and undo the change (git -C /repo checkout -- .).  Prints the catch matrix."""
import json
import os

os.environ.setdefault("VERIF_EVIDENCE_DIR", os.path.join(os.path.dirname(os.path.dirname(os.path.abspath(__file__))), ".cache", "seed_evidence"))
import re
import subprocess
import sys
import time

VERIF = os.path.dirname(os.path.dirname(os.path.abspath(__file__)))
REPO = os.environ.get("VERIF_REPO", "/repo")


def sh(cmd, **kw):
    r = subprocess.run(cmd, shell=True, capture_output=True, text=True, **kw)
    return r.returncode, r.stdout + r.stderr


def main():
    ids = sys.argv[1:] or sorted(os.listdir(os.path.join(VERIF, "seeded")))
    rc, out = sh("git -C %s status --porcelain --untracked-files=no" % REPO)
    if out.strip():
        sys.exit("refusing to run: /repo has uncommitted changes:\n" + out)
    head = sh("git -C %s rev-parse --short HEAD" % REPO)[1].strip()
    rows = []
    for sid in ids:
        d = os.path.join(VERIF, "seeded", sid)
        mp = os.path.join(d, "meta.json")
        if not os.path.exists(mp):
            continue
        meta = json.load(open(mp))
        props = [meta["property"]] + meta.get("also", [])
        rc, out = sh("git -C %s apply %s" % (REPO, os.path.join(d, "patch.diff")))
        cur = {"repo_head": head, "checks": {}}
        if rc != 0:
            cur["apply_error"] = out[-400:]
        else:
            try:
                for p in props:
                    t0 = time.time()
                    r = subprocess.run("python3 tools/check.py %s --tier quick" % p, shell=True, cwd=VERIF, capture_output=True,
                                       text=True, timeout=3600)
                    lines = [l for l in (r.stdout + r.stderr).splitlines() if l.startswith(("VIOLATION", "KNOWN-FINDING"))]
                    replay = ""
                    mm = re.search(r"replay=(\S+)", "\n".join(l for l in lines if l.startswith("VIOLATION")))
                    if mm and os.path.exists(mm.group(1)):
                        replay = open(mm.group(1)).read()[:1200]
                    cur["checks"][p] = {"exit": r.returncode, "verdict_lines": lines, "wall_s": round(time.time() - t0, 1),
                                        "replay_head": replay, "how": "git -C /repo apply; check; git -C /repo checkout -- ."}
            finally:
                sh("git -C %s checkout -- ." % REPO)
        meta["current"] = cur
        json.dump(meta, open(mp, "w"), indent=1)
        verdicts = {p: ("apply-error" if "apply_error" in cur else
                        ("VIOLATION" + (" (no-failing-input-found)" if any("no-failing-input-found" in l for l in v["verdict_lines"]) else "")
                         if v["exit"] == 1 else "missed" if v["exit"] == 0 else "error %s" % v["exit"]))
                    for p, v in cur["checks"].items()}
        rows.append((sid, verdicts, cur.get("apply_error", "")))
        print(sid, verdicts, cur.get("apply_error", "")[:200], flush=True)
    sh("python3 tools/extract.py", cwd=VERIF)
    sh("python3 tools/cxx2lean.py", cwd=VERIF)
    mp = os.path.join(VERIF, "seeded", "MATRIX.json")
    matrix = {}
    if os.path.exists(mp):
        for e in json.load(open(mp)):
            matrix[e["seed"]] = e
    for a, b, _ in rows:
        matrix[a] = {"seed": a, "verdicts": b, "repo_head": head}
    json.dump([matrix[k] for k in sorted(matrix)], open(mp, "w"), indent=1)


if __name__ == "__main__":
    main()
