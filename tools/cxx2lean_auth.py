#!/usr/bin/env python3
"""Mode 5 of the source-to-Lean translator: the credential check.

  authentication::basic::is_valid, basic::authenticate_value (http/authentication/basic.hpp),
  authentication::authenticate (http/authentication/authentication.hpp)

`is_valid` becomes `GenAuth.isValid : (Bytes → Option Bytes) → (Bytes → Option Bytes) → Option Bool` over the two maps it
reads (the request's header fields and `user_passwords_`, each as its look-up function); `none` is "an exception leaves
the function" (`std::string::substr(pos)` with `pos > size()` throws `std::out_of_range`), so the theorem
`AU_isValid : GenAuth.isValid … = some (Auth.basicIsValid …)` (ViaProofs/Trans/AU.lean) also says that no input makes it
throw.  `base64::decode` is built from Boost archive iterators and is NOT translated: it is the model's `Auth.decode`
(tied to the code by the exhaustive short-string correspondence of C17).

Subset (anything else raises Unsupported, fail closed): a straight-line body of
  auto it(MAP.find(KEY));  if (it == MAP.end()|cend()) return false;      -> match … with | none => … | some it_second => …
  std::string s(it->second);                                              (only after that test)
  auto p(s.find(CONST | 'c'));  if (p == std::string::npos) return false; -> match … with | none => … | some p => …
  p += N;  if (p > s.size()) return false;  s = s.substr(p);  std::string t(s.substr(a, n) | s.substr(a));
  std::string d(base64::decode(s));  return false;  return (a == b);
"""
import re

import cxx2lean_enc as E
from cxx2lean import Unsupported
import cxx2lean_rx as R

BASIC_HPP = "http/authentication/basic.hpp"
AUTH_HPP = "http/authentication/authentication.hpp"


def const_bytes(name):
    base = name.rsplit("::", 1)[-1]
    for rel in (BASIC_HPP, "http/header_field.hpp"):
        m = re.search(r"constexpr\s+char\s+%s\s*\[\s*\]\s*\{\s*\"((?:\\.|[^\"\\])*)\"\s*\}" % re.escape(base), R.text_of(rel))
        if m:
            raw = m.group(1).encode("latin-1").decode("unicode_escape").encode("latin-1")
            return E.bytes_lit(raw)
    return None


class GenAuth:
    def __init__(self, maps):
        self.maps = set(maps)
        self.ty = {}          # variable -> bytes / nat / optnat / iter / iterok

    def ex(self, e):
        k = e[0]
        if k == "id":
            v = e[1]
            if v in self.ty:
                if self.ty[v] not in ("bytes", "nat"):
                    raise Unsupported("%s used as a value while it is a %s" % (v, self.ty[v]))
                return v, self.ty[v]
            c = const_bytes(v)
            if c:
                return c, "bytes"
            raise Unsupported("identifier %s" % v)
        if k == "num":
            return str(e[1]), "nat"
        if k == "char":
            return str(e[1]), "byte"
        if k == "str":
            return E.bytes_lit(e[1]), "bytes"
        if k == "member" and e[1][0] == "id" and e[2] == "second":
            it = e[1][1]
            if self.ty.get(it) != "iterok":
                raise Unsupported("%s->second without a preceding test against end()" % it)
            return it + "_second", "bytes"
        if k == "add":
            a, aty = self.ex(e[1])
            b, bty = self.ex(e[2])
            if aty == "nat" and bty == "nat":
                return "(%s + %s)" % (a, b), "nat"
            if aty == "bytes" and bty == "bytes":
                return "(%s ++ %s)" % (a, b), "bytes"
            raise Unsupported("+ on %s and %s" % (aty, bty))
        if k == "call" and e[1][0] == "member" and e[1][2] == "size" and not e[2]:
            s, sty = self.ex(e[1][1])
            if sty != "bytes":
                raise Unsupported("size() of a %s" % sty)
            return "%s.length" % s, "nat"
        if k == "call" and e[1] == ("id", "base64::decode") and len(e[2]) == 1:
            a, aty = self.ex(e[2][0])
            if aty != "bytes":
                raise Unsupported("base64::decode of a %s" % aty)
            return "(Auth.decode %s)" % a, "bytes"
        if k == "call" and e[1] == ("id", "std::string") and len(e[2]) == 1:
            a, aty = self.ex(e[2][0])
            if aty != "bytes":
                raise Unsupported("std::string(%s)" % aty)
            return a, "bytes"
        raise Unsupported("expression %r" % (e,))

    def substr(self, e):
        """(guard, term) for `s.substr(a)` / `s.substr(a, n)`; guard = the condition under which it throws"""
        if not (e[0] == "call" and e[1][0] == "member" and e[1][2] == "substr" and len(e[2]) in (1, 2)):
            return None
        s, sty = self.ex(e[1][1])
        a, aty = self.ex(e[2][0])
        if sty != "bytes" or aty != "nat":
            raise Unsupported("substr on %s / %s" % (sty, aty))
        t = "(%s.drop %s)" % (s, a)
        if len(e[2]) == 2:
            n, nty = self.ex(e[2][1])
            if nty != "nat":
                raise Unsupported("substr count of type %s" % nty)
            t = "(%s.take %s)" % (t, n)
        return "%s > %s.length" % (a, s), t

    def find(self, e):
        if not (e[0] == "call" and e[1][0] == "member" and e[1][2] == "find" and len(e[2]) == 1):
            return None
        return e[1][1], e[2][0]

    def ret(self, e):
        if e[0] == "bool":
            return "some %s" % ("true" if e[1] else "false")
        if e[0] == "cmp" and e[1] == "==":
            a, aty = self.ex(e[2])
            b, bty = self.ex(e[3])
            if aty != "bytes" or bty != "bytes":
                raise Unsupported("return of a comparison of %s and %s" % (aty, bty))
            return "some (%s == %s)" % (a, b)
        raise Unsupported("return %r" % (e,))

    def seq(self, stmts):
        if not stmts:
            raise Unsupported("control reaches the end of a non-void function")
        s, rest = stmts[0], stmts[1:]
        if s[0] == "return":
            if rest:
                raise Unsupported("statements after a return")
            return self.ret(s[1])
        if s[0] == "ldecl":
            _, cty, name, init = s
            if name in self.ty:
                raise Unsupported("redeclaration of %s" % name)
            f = self.find(init)
            if f and cty == "auto":
                obj, key = f
                if obj[0] == "id" and obj[1] in self.maps:
                    kt, kty = self.ex(key)
                    if kty != "bytes":
                        raise Unsupported("map key of type %s" % kty)
                    self.ty[name] = "iter"
                    return "let %s : Option Bytes := %s %s; %s" % (name, obj[1], kt, self.seq(rest))
                st, sty = self.ex(obj)
                kt, kty = self.ex(key)
                if sty != "bytes":
                    raise Unsupported("find on a %s" % sty)
                self.ty[name] = "optnat"
                if kty == "bytes":
                    return "let %s : Option Nat := findSub %s %s 0; %s" % (name, kt, st, self.seq(rest))
                if kty == "byte":
                    return "let %s : Option Nat := findByte %s %s; %s" % (name, kt, st, self.seq(rest))
                raise Unsupported("find of a %s" % kty)
            if cty != "std::string":
                raise Unsupported("local of type %s" % cty)
            sub = self.substr(init)
            if sub:
                guard, t = sub
                self.ty[name] = "bytes"
                return "if %s then none else let %s : Bytes := %s; %s" % (guard, name, t, self.seq(rest))
            t, ty = self.ex(init)
            if ty != "bytes":
                raise Unsupported("std::string initialised from a %s" % ty)
            self.ty[name] = "bytes"
            return "let %s : Bytes := %s; %s" % (name, t, self.seq(rest))
        if s[0] == "if" and s[3] is None and s[2][0] == "return":
            c, r = s[1], self.ret(s[2][1])
            if c[0] == "cmp" and c[1] == "==" and c[2][0] == "id":
                v = c[2][1]
                if self.ty.get(v) == "iter" and c[3][0] == "call" and c[3][1][0] == "member" and c[3][1][2] in ("end", "cend") \
                        and c[3][1][1][0] == "id" and c[3][1][1][1] in self.maps and not c[3][2]:
                    self.ty[v] = "iterok"
                    return "match %s with | none => %s | some %s_second => %s" % (v, r, v, self.seq(rest))
                if self.ty.get(v) == "optnat" and c[3] == ("id", "std::string::npos"):
                    self.ty[v] = "nat"
                    return "match %s with | none => %s | some %s => %s" % (v, r, v, self.seq(rest))
            if c[0] == "cmp" and c[1] in (">", "<", ">=", "<="):
                a, aty = self.ex(c[2])
                b, bty = self.ex(c[3])
                if aty != "nat" or bty != "nat":
                    raise Unsupported("ordering of %s and %s" % (aty, bty))
                return "if %s %s %s then %s else %s" % (a, {">": ">", "<": "<", ">=": "≥", "<=": "≤"}[c[1]], b, r, self.seq(rest))
            raise Unsupported("condition %r" % (c,))
        if s[0] == "expr" and s[1][0] == "assign" and s[1][2][0] == "id":
            _, op, (_, v), rhs = s[1]
            if op == "+=" and self.ty.get(v) == "nat":
                t, ty = self.ex(rhs)
                if ty != "nat":
                    raise Unsupported("+= of a %s" % ty)
                return "let %s : Nat := %s + %s; %s" % (v, v, t, self.seq(rest))
            if op == "=" and self.ty.get(v) == "bytes":
                sub = self.substr(rhs)
                if sub:
                    guard, t = sub
                    return "if %s then none else let %s : Bytes := %s; %s" % (guard, v, t, self.seq(rest))
                t, ty = self.ex(rhs)
                if ty != "bytes":
                    raise Unsupported("assignment of a %s to a string" % ty)
                return "let %s : Bytes := %s; %s" % (v, t, self.seq(rest))
        raise Unsupported("statement %r" % (s,))


def body(rel, sig, cls):
    return E.parse_body(R.strip_comments(E.fn_body(rel, sig, cls)).replace("->", "."))


def translate_auth():
    out = ["import ViaModel.Auth\n" + R.HEADER % ("basic::is_valid, basic::authenticate_value, authentication::authenticate",
                                                  "http/authentication/{basic,authentication}.hpp", "AU")]
    st = body(BASIC_HPP, r"\bvirtual\s+bool\s+is_valid\s*\(\s*StringMap\s+const&\s+header_fields\s*\)\s*const\s+override", "basic")
    term = GenAuth(["header_fields", "user_passwords_"]).seq(st)
    out.append("/-- `basic::is_valid`; `none` = an exception (`std::out_of_range` from `substr`) leaves the function -/\n"
               "def GenAuth.isValid (header_fields : Bytes → Option Bytes) (user_passwords_ : Bytes → Option Bytes) : Option Bool :=\n  %s\n" % term)
    # add_user: `user_passwords_.insert(value_type(user, password))` and nothing else -- the first registration of a name wins
    au = body(BASIC_HPP, r"\bvoid\s+add_user\s*\(\s*std::string\s+user\s*,\s*std::string\s+password\s*\)", "basic")
    ok = (len(au) == 1 and au[0][0] == "expr" and au[0][1][0] == "call" and au[0][1][1] == ("member", ("id", "user_passwords_"), "insert"))
    out.append("/-- `add_user` is exactly one `user_passwords_.insert(...)` (first registration wins, as `Auth.tableFind`) -/\n"
               "def GenAuth.addUserIsInsert : Bool := %s\n" % ("true" if ok else "false"))
    # authenticate_value: return realm().empty() ? A : B
    st = body(BASIC_HPP, r"\bvirtual\s+std::string\s+authenticate_value\s*\(\s*\)\s*const\s+override", "basic")
    if not (len(st) == 1 and st[0][0] == "return" and st[0][1][0] == "cond"):
        raise Unsupported("authenticate_value is not a single conditional return")
    _, c, a, b = st[0][1]
    if c != ("call", ("member", ("call", ("id", "realm"), []), "empty"), []):
        raise Unsupported("authenticate_value condition %r" % (c,))

    def sub_realm(e):
        if e == ("call", ("id", "realm"), []):
            return ("id", "realm")
        if isinstance(e, tuple):
            return tuple(sub_realm(x) for x in e)
        if isinstance(e, list):
            return [sub_realm(x) for x in e]
        return e
    g = GenAuth([])
    g.ty["realm"] = "bytes"
    ta, tya = g.ex(sub_realm(a))
    tb, tyb = g.ex(sub_realm(b))
    if tya != "bytes" or tyb != "bytes":
        raise Unsupported("authenticate_value branches")
    out.append("def GenAuth.authenticateValue (realm : Bytes) : Bytes :=\n  if realm.isEmpty then %s else %s\n" % (ta, tb))
    # authenticate: if (is_valid(request.headers().fields())) return std::string(""); else return authenticate_value();
    st = body(AUTH_HPP, r"\bstd::string\s+authenticate\s*\(\s*R\s+const&\s+request\s*\)\s*const", "authentication")
    want = [("if", ("call", ("id", "is_valid"), [("call", ("member", ("call", ("member", ("id", "request"), "headers"), []), "fields"), [])]),
             ("return", ("call", ("id", "std::string"), [("str", b"")])), ("return", ("call", ("id", "authenticate_value"), [])))]
    if st != want:
        raise Unsupported("authenticate is not `if (is_valid(fields)) return \"\"; else return authenticate_value();`: %r" % (st,))
    out.append("/-- `authentication::authenticate` over the results of the two virtual calls it makes -/\n"
               "def GenAuth.authenticate (is_valid : Bool) (authenticate_value : Bytes) : Bytes :=\n  if is_valid then [] else authenticate_value\n")
    lc = const_bytes("header_field::LC_AUTHORIZATION")
    if not lc:
        raise Unsupported("LC_AUTHORIZATION not found")
    out.append("def GenAuth.lcAuthorization : Bytes := %s\n" % lc)
    out.append("end Via\n")
    return "\n".join(out)


if __name__ == "__main__":
    print(translate_auth())
