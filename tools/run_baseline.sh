#!/bin/sh
# Rebuild the repository's own test suite with the verification guard OFF and run it.
# The guard macro (KENBA_VIA_HTTPLIB_VERIF) is never defined by the repository's build.
set -e
REPO="${VERIF_REPO:-/repo}"
if [ ! -f "$REPO/_build/build.ninja" ]; then
  cmake -G Ninja -B "$REPO/_build" -S "$REPO" >/dev/null
fi
cmake --build "$REPO/_build" >/dev/null
ctest --test-dir "$REPO/_build" -j8 --timeout 900 --output-junit "$REPO/_build/junit.xml"
"$REPO/_build/via-httplib_test" --report_level=short 2>&1 | tail -5
