#!/usr/bin/env python3
"""seed_test.py <worktree> <seed id> <property> — confirm a seeded change (demo passes without / fails with it, the suite
still passes), store it under /verif/seeded/<id>/, then run the property's check against /repo with the change applied
(and undo it straight afterwards)."""
import json
import os

os.environ.setdefault("VERIF_EVIDENCE_DIR", os.path.join(os.path.dirname(os.path.dirname(os.path.abspath(__file__))), ".cache", "seed_evidence"))
import re
import shutil
import subprocess
import sys
import time

VERIF = os.path.dirname(os.path.dirname(os.path.abspath(__file__)))


def sh(cmd, cwd=None, timeout=1800):
    r = subprocess.run(cmd, shell=True, cwd=cwd, capture_output=True, text=True, timeout=timeout)
    return r.returncode, r.stdout + r.stderr


def main():
    wt, sid, prop = sys.argv[1], sys.argv[2], sys.argv[3].upper()
    tier = sys.argv[4] if len(sys.argv) > 4 else "quick"
    patch = os.path.join(wt, "mutation.patch")
    demo = os.path.join(wt, "demo.cpp")
    meta = {"id": sid, "property": prop, "confirmed": {}, "checks": {}}
    top = open(demo).read(3000)
    m = re.search(r"((?:g\+\+|clang\+\+(?:-14)?)[^\n]*demo\.cpp[^\n]*)", top)
    cxx, flags = "g++", ["-std=c++17", "-DASIO_STANDALONE", "-pthread"]
    if m:
        toks = re.split(r"\s+", m.group(1).split("&&")[0].split(";")[0].replace("`", "").strip().rstrip("*/ "))
        toks = [t.strip("()[],") for t in toks]
        cxx = toks[0]
        flags = [t for t in toks[1:] if re.match(r"-(std=|D|O|l|f|g|pthread|W)", t)]
        if not any(t.startswith("-std") for t in flags):
            flags.insert(0, "-std=c++17")
    libs = [t for t in flags if t.startswith("-l")]
    flags = [t for t in flags if not t.startswith("-l")]
    cmd = "%s %s -I include demo.cpp -o demo %s" % (cxx, " ".join(flags), " ".join(libs))
    meta["demo_build"] = cmd
    # without the change
    rc, out = sh("git apply -R mutation.patch", wt)
    if rc != 0:
        rc2, _ = sh("git apply --check mutation.patch", wt)   # maybe it is not applied
        if rc2 != 0:
            print("cannot toggle patch:", out)
    rc, out = sh(cmd + " && ./demo", wt)
    meta["confirmed"]["demo_without_change_exit"] = rc
    rc, out = sh("git apply mutation.patch", wt)
    rc, out = sh(cmd + " && ./demo", wt)
    meta["confirmed"]["demo_with_change_exit"] = rc
    meta["confirmed"]["demo_with_change_output"] = out[-600:]
    rc, out = sh("(test -d _build || cmake -G Ninja -B _build -S . -DVIA_HTTPLIB_UNIT_TESTS=ON >/dev/null) && cmake --build _build >/dev/null 2>&1 && ./_build/via-httplib_test", wt)
    meta["confirmed"]["suite_with_change_exit"] = rc
    ok = meta["confirmed"]["demo_without_change_exit"] == 0 and meta["confirmed"]["demo_with_change_exit"] != 0 and rc == 0
    meta["confirmed"]["ok"] = ok
    d = os.path.join(VERIF, "seeded", sid)
    os.makedirs(d, exist_ok=True)
    # keep only the change to the library sources (build output may be tracked in the checkout)
    rc, out = sh("git diff -- include", wt)
    if rc == 0 and out.strip():
        open(os.path.join(d, "patch.diff"), "w").write(out)
    else:
        shutil.copy(patch, os.path.join(d, "patch.diff"))
    shutil.copy(demo, os.path.join(d, "demo.cpp"))
    if os.path.exists(os.path.join(wt, "NOTES.md")):
        shutil.copy(os.path.join(wt, "NOTES.md"), os.path.join(d, "NOTES.md"))
    # run the check(s) against the changed tree.  While other work is using /repo the changed tree is the scratch
    # worktree itself (VERIF_REPO); `--apply` uses the official flow: git -C /repo apply … ; check ; git checkout.
    official = os.environ.get("SEED_APPLY_TO_REPO") == "1"
    env = dict(os.environ)
    if official:
        rc, out = sh("git -C /repo apply " + os.path.join(d, "patch.diff"))
        if rc != 0:
            meta["checks"]["apply_error"] = out[-500:]
    else:
        env["VERIF_REPO"] = wt
    try:
        for p in [prop] + sys.argv[5:]:
            t0 = time.time()
            r = subprocess.run("python3 tools/check.py %s --tier %s" % (p, tier), shell=True, cwd=VERIF, capture_output=True,
                               text=True, timeout=3600, env=env)
            out = r.stdout + r.stderr
            lines = [l for l in out.splitlines() if l.startswith(("VIOLATION", "KNOWN-FINDING"))]
            replay = ""
            mm = re.search(r"replay=(\S+)", "\n".join(lines))
            if mm and os.path.exists(mm.group(1)):
                replay = open(mm.group(1)).read()[:1500]
            meta["checks"][p] = {"exit": r.returncode, "verdict_lines": lines, "wall_s": round(time.time() - t0, 1), "replay_head": replay,
                                 "how": "git -C /repo apply" if official else "VERIF_REPO=<scratch worktree with the change>"}
    finally:
        if official:
            sh("git -C /repo checkout -- .")
        sh("python3 tools/extract.py", VERIF)
        sh("python3 tools/cxx2lean.py", VERIF)
    json.dump(meta, open(os.path.join(d, "meta.json"), "w"), indent=1)
    print(json.dumps({"id": sid, "confirmed": meta["confirmed"]["ok"], "demo": (meta["confirmed"]["demo_without_change_exit"], meta["confirmed"]["demo_with_change_exit"]),
                      "suite": meta["confirmed"]["suite_with_change_exit"],
                      "checks": {k: (v.get("exit"), v.get("verdict_lines")) for k, v in meta["checks"].items() if isinstance(v, dict)}}, indent=1))


if __name__ == "__main__":
    main()
