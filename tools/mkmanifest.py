#!/usr/bin/env python3
"""Assemble MANIFEST.json from the property plug-ins (tools/props/cNN.py)."""
import importlib
import json
import os
import sys

HERE = os.path.dirname(os.path.abspath(__file__))
VERIF = os.path.dirname(HERE)
sys.path.insert(0, HERE)

ALL = ["C%02d" % i for i in range(1, 21)]
PENDING_REASON = "check not built yet in this revision of /verif (work in progress; see DESIGN.md §10 build order)"


def main():
    checks = []
    na = []
    for pid in ALL:
        path = os.path.join(HERE, "props", pid.lower() + ".py")
        if not os.path.exists(path):
            na.append({"property_id": pid, "reason": PENDING_REASON})
            continue
        m = importlib.import_module("props." + pid.lower())
        if getattr(m, "NOT_APPLICABLE", None):
            na.append({"property_id": pid, "reason": m.NOT_APPLICABLE})
            continue
        checks.append({
            "property_id": pid,
            "quick_cmd": "python3 tools/check.py %s --tier quick" % pid,
            "thorough_cmd": "python3 tools/check.py %s --tier thorough" % pid,
            "evidence_file": "evidence/%s.json" % pid,
            "replay_cmd_template": "python3 tools/check.py %s --replay {path}" % pid,
            "engine": "lean4-proof+correspondence",
            "level_claimed": {
                "category": m.LEVEL,
                "text": m.__doc__.strip().split("\n")[0] + " — " + getattr(m, "LEVEL_TEXT", m.RULE),
                "design_ref": "DESIGN.md §5 " + pid,
            },
            "level_note": "; ".join(m.TRUSTED_BASE + m.ASSUMPTIONS),
            "technique": getattr(m, "TECHNIQUE", "Lean 4 theorem about an executable model + differential correspondence "
                                 "(real C++ vs model driver) + by-construction oracle on the implementation"),
        })
    manifest = {
        "version": 1,
        "setup_cmd": "sh tools/setup.sh",
        "hooks": {
            "guard": "KENBA_VIA_HTTPLIB_VERIF",
            "enable": "harnesses are compiled with -DKENBA_VIA_HTTPLIB_VERIF against /repo/include (header-only library; "
                      "no guarded source hook is currently needed)",
            "baseline_off_cmd": "sh tools/run_baseline.sh",
            "source_commits": [],
            "add_only": True,
        },
        "engines": [{
            "name": "lean4-proof+correspondence",
            "path": "tools/check.py",
            "serves_properties": [c["property_id"] for c in checks],
            "kind_free_text": "Lean 4 model (lean/ViaModel) + theorems (lean/ViaProofs) + extractor of tables and structural facts (tools/extract.py) + "
                              "translators of the reception side (parse_char / parse state machines, message_headers::parse, rx_chunk::parse, rx_request / rx_response::parse, the two receive functions, header look-ups, predicates) and of the emission side (encoders, are_headers_split, is_valid) from the current C++ into Lean (tools/cxx2lean.py, cxx2lean_rx.py, cxx2lean_enc.py -> lean/ViaGen, proved equal to the model in lean/ViaProofs/Trans) + "
                              "C++ harnesses (harness/) driven by generated operation scripts, diffed against the compiled "
                              "model driver (lake exe via_model)",
        }],
        "checks": checks,
        "not_applicable": na,
        "notes": "Every check rebuilds the harness from /repo's working tree (content-hash cache in .cache/) and re-checks "
                 "the Lean proofs against a freshly regenerated Generated.lean and freshly translated ViaGen/*.lean. VERIF_SEED seeds every generator.",
    }
    with open(os.path.join(VERIF, "MANIFEST.json"), "w") as f:
        json.dump(manifest, f, indent=1)
        f.write("\n")


if __name__ == "__main__":
    main()
