#!/usr/bin/env python3
"""Mode 4 of the source-to-Lean translator: the encoders (pure string-building functions).

  http_version (character.hpp); header_field::to_header / content_length / chunked_encoding (header_field.hpp);
  response_status::content_permitted (response_status.hpp); request_line::to_string, tx_request::message (request.hpp);
  response_line::to_string, tx_response::message (response.hpp); chunk_header::to_string, last_chunk::to_string (chunk.hpp)

Each becomes a Lean function over the values it reads (the members it uses are parameters).  Subset: a `std::string`
local built from an expression, `+=`, `x[k] = c`, `bool` locals, `if (c) x += e;`, `return`, `+` on strings / string
literals / character literals, `std::string(x)`, `std::to_string`, `x.find(CONST) == std::string::npos`, `x.empty()`,
comparisons of an `int` with `static_cast<int>(code::NAME)`, and calls of the other functions of this list.
Everything else raises Unsupported (fail closed).  `std::string` concatenation is list append; `std::to_string` on a
`size_t` / `int` is the model's `toDecString` / `intToDecString`; `std::string::find(s) == npos` is `!containsSub`.
"""
import os
import re

import cxx2lean as X
from cxx2lean import Unsupported, P, lex
import cxx2lean_rx as R


def fn_body(rel, pattern, cls=None):
    text = R.text_of(rel)
    start = 0
    if cls:
        m = re.search(r"\bclass\s+%s\b" % cls, text)
        if not m:
            raise Unsupported("class %s not found" % cls)
        start = m.end()
    m2 = re.compile(pattern).search(text, start)
    if not m2:
        raise Unsupported("function %s not found in %s" % (pattern, rel))
    i = text.index("{", m2.end())
    depth, j = 0, i
    while j < len(text):
        if text.startswith("//", j):
            j = text.index("\n", j)
            continue
        ch = text[j]
        if ch == '"':
            mm = re.match(r'"(?:\\.|[^"\\])*"', text[j:])
            if mm:
                j += mm.end()
                continue
        if ch == "'":
            mm = re.match(r"'(?:\\.|[^'\\])'", text[j:])
            if mm:
                j += mm.end()
                continue
        if ch == "{":
            depth += 1
        elif ch == "}":
            depth -= 1
            if depth == 0:
                return text[i:j + 1]
        j += 1
    raise Unsupported("unbalanced braces")


def const_bytes(name):
    """`constexpr char NAME[] {"..."}` looked up in the http headers (unqualified or qualified name)"""
    base = name.rsplit("::", 1)[-1]
    for rel in ("http/character.hpp", "http/header_field.hpp", "http/headers.hpp", "http/request_method.hpp"):
        m = re.search(r"constexpr\s+char\s+%s\s*\[\s*\]\s*\{\s*\"((?:\\.|[^\"\\])*)\"\s*\}" % re.escape(base), R.text_of(rel))
        if m:
            raw = m.group(1).encode("latin-1").decode("unicode_escape").encode("latin-1")
            return "([%s] : Bytes)" % ", ".join(str(b) for b in raw)
    return None


def bytes_lit(raw):
    return "([%s] : Bytes)" % ", ".join(str(b) for b in raw)


class GenStr:
    def __init__(self, params, calls):
        self.vars = dict(params)      # name -> type (bytes / byte / nat / int / bool)
        self.calls = calls            # C++ callee text -> (lean function text with fixed leading args, [arg types], result type)

    def ex(self, e):
        k = e[0]
        if k == "str":
            return bytes_lit(e[1]), "bytes"
        if k == "char":
            return str(e[1]), "byte"
        if k == "num":
            return str(e[1]), "nat"
        if k == "bool":
            return ("true" if e[1] else "false"), "bool"
        if k == "id":
            v = e[1]
            if v in self.vars:
                return v, self.vars[v]
            if v == "std::string::npos":
                return "npos", "npos"
            c = const_bytes(v)
            if c:
                return c, "bytes"
            raise Unsupported("identifier %s in an encoder" % v)
        if k == "toint_enum":
            return "(%s : Int)" % e[1], "int"
        if k == "not":
            t, ty = self.ex(e[1])
            if ty != "bool":
                raise Unsupported("! on a %s" % ty)
            return "!" + t, "bool"
        if k in ("and", "or"):
            a, aty = self.ex(e[1])
            b, bty = self.ex(e[2])
            if aty not in ("bool", "prop") or bty not in ("bool", "prop"):
                raise Unsupported("&& / || on non-booleans")
            a = a if aty == "bool" else "decide %s" % a
            b = b if bty == "bool" else "decide %s" % b
            return "(%s %s %s)" % (a, "&&" if k == "and" else "||", b), "bool"
        if k == "add":
            a, aty = self.ex(e[1])
            b, bty = self.ex(e[2])
            if aty == "byte":
                a, aty = "[%s]" % a, "bytes"
            if bty == "byte":
                b, bty = "[%s]" % b, "bytes"
            if aty != "bytes" or bty != "bytes":
                raise Unsupported("+ on %s and %s in an encoder" % (aty, bty))
            return "(%s ++ %s)" % (a, b), "bytes"
        if k == "cmp":
            a, aty = self.ex(e[2])
            b, bty = self.ex(e[3])
            op = e[1]
            if {aty, bty} == {"findpos", "npos"} and op in ("==", "!="):
                fp = a if aty == "findpos" else b
                txt = "(containsSub %s %s)" % fp
                return ("!" + txt if op == "==" else txt), "bool"
            if {aty, bty} == {"lastbyte", "byte"} and op == "==":
                lb, ch = (a, b) if aty == "lastbyte" else (b, a)
                return "(%s.getLast? == some %s)" % (lb, ch), "bool"
            if aty == "int" and bty == "int":
                if op in ("==", "!="):
                    return "(%s %s %s)" % (a, op, b), "bool"
                return "(%s %s %s)" % (a, op, b), "prop"
            raise Unsupported("comparison of %s and %s in an encoder" % (aty, bty))
        if k == "call":
            f = e[1]
            if f[0] == "id":
                name = f[1]
                if name == "std::string" and len(e[2]) == 1:
                    t, ty = self.ex(e[2][0])
                    if ty != "bytes":
                        raise Unsupported("std::string(%s)" % ty)
                    return t, "bytes"
                if name == "std::to_string" and len(e[2]) == 1:
                    t, ty = self.ex(e[2][0])
                    if ty == "nat":
                        return "(toDecString %s)" % t, "bytes"
                    if ty == "int":
                        return "(intToDecString %s)" % t, "bytes"
                    raise Unsupported("std::to_string of a %s" % ty)
                if name in self.calls:
                    lf, atys, rty = self.calls[name]
                    if len(e[2]) != len(atys):
                        raise Unsupported("arity of " + name)
                    args = []
                    for a, aty in zip(e[2], atys):
                        t, ty = self.ex(a)
                        if ty != aty:
                            raise Unsupported("argument of %s: %s for %s" % (name, ty, aty))
                        args.append(t)
                    return "(%s%s)" % (lf, "".join(" " + a for a in args)), rty
                raise Unsupported("call of %s in an encoder" % name)
            if f[0] == "member":
                t, ty = self.ex(f[1])
                if ty == "bytes" and f[2] == "empty" and not e[2]:
                    return "%s.isEmpty" % t, "bool"
                if ty == "bytes" and f[2] == "find" and len(e[2]) == 1:
                    a, aty = self.ex(e[2][0])
                    if aty != "bytes":
                        raise Unsupported("find of a %s" % aty)
                    return (a, t), "findpos"
                if ty == "bytes" and f[2] == "back" and not e[2]:
                    return t, "lastbyte"        # x.back(): only compared with a character below (guarded by !x.empty() in the code)
        raise Unsupported("expression %r in an encoder" % (e,))

    def term(self, stmts, rty):
        if not stmts:
            raise Unsupported("an encoder can fall off its end")
        st, rest = stmts[0], stmts[1:]
        k = st[0]
        if k == "ldecl" and st[1] in ("std::string", "bool"):
            t, ty = self.ex(st[3])
            want = "bytes" if st[1] == "std::string" else "bool"
            if ty == "prop" and want == "bool":
                t, ty = "decide " + t, "bool"
            if ty != want:
                raise Unsupported("local %s initialised with a %s" % (st[2], ty))
            self.vars[st[2]] = want
            return "let %s : %s := %s; %s" % (st[2], "Bytes" if want == "bytes" else "Bool", t, self.term(rest, rty))
        if k == "expr" and st[1][0] == "assign":
            op, lhs, rhs = st[1][1], st[1][2], st[1][3]
            if op == "+=" and lhs[0] == "id" and self.vars.get(lhs[1]) == "bytes":
                t, ty = self.ex(rhs)
                if ty == "byte":
                    t, ty = "[%s]" % t, "bytes"
                if ty != "bytes":
                    raise Unsupported("+= of a %s" % ty)
                return "let %s : Bytes := %s ++ %s; %s" % (lhs[1], lhs[1], t, self.term(rest, rty))
            if op == "=" and lhs[0] == "index" and lhs[1][0] == "id" and self.vars.get(lhs[1][1]) == "bytes":
                i, ity = self.ex(lhs[2])
                t, ty = self.ex(rhs)
                if ity != "nat" or ty != "byte":
                    raise Unsupported("indexed assignment")
                return "let %s : Bytes := %s.set %s %s; %s" % (lhs[1][1], lhs[1][1], i, t, self.term(rest, rty))
            raise Unsupported("assignment form in an encoder")
        if k == "if" and st[3] is None:
            body = st[2][1] if st[2][0] == "block" else [st[2]]
            if len(body) == 1 and body[0][0] == "expr" and body[0][1][0] == "assign" and body[0][1][1] == "+=" and \
                    body[0][1][2][0] == "id" and self.vars.get(body[0][1][2][1]) == "bytes":
                x = body[0][1][2][1]
                c, cty = self.ex(st[1])
                if cty == "prop":
                    c = "decide " + c
                elif cty != "bool":
                    raise Unsupported("condition of type %s" % cty)
                t, ty = self.ex(body[0][1][3])
                if ty == "byte":
                    t, ty = "[%s]" % t, "bytes"
                if ty != "bytes":
                    raise Unsupported("+= of a %s" % ty)
                return "let %s : Bytes := if %s then %s ++ %s else %s; %s" % (x, c, x, t, x, self.term(rest, rty))
            raise Unsupported("if form in an encoder")
        if k == "return":
            t, ty = self.ex(st[1])
            if ty == "prop" and rty == "bool":
                t, ty = "decide " + t, "bool"
            if ty != rty:
                raise Unsupported("return of a %s where a %s is expected" % (ty, rty))
            return t
        raise Unsupported("statement %r in an encoder" % (k,))


def status_enum_casts(body):
    """static_cast<int>(code::NAME) -> the number from `enum class code`"""
    def rep(m):
        v = R.status_code("response_status::code::" + m.group(1))
        return " __ENUMINT_%s__ " % v
    return re.sub(r"static_cast\s*<\s*int\s*>\s*\(\s*code::(\w+)\s*\)", rep, body)


class PE(P):
    """the statement parser, plus string literals, `x[k]` and the enum casts prepared by status_enum_casts"""

    def postfix(self):
        k, v = self.peek()
        if k == "str":
            self.next()
            raw = v[1:-1].encode("latin-1").decode("unicode_escape").encode("latin-1")
            e = ("str", raw)
        elif k == "id" and v.startswith("__ENUMINT_"):
            self.next()
            e = ("toint_enum", v[len("__ENUMINT_"):-2])
        else:
            return self._postfix_with_index()
        return e

    def _postfix_with_index(self):
        e = P.postfix(self)
        while self.accept("["):
            i = self.expr()
            self.expect("]")
            e = ("index", e, i)
        return e


def lex_enc(text):
    toks = []
    pos = 0
    token = re.compile(r'(?P<str>"(?:\\.|[^"\\])*")')
    while pos < len(text):
        m = token.match(text, pos)
        if m:
            toks.append(("str", m.group("str")))
            pos = m.end()
            continue
        m2 = X.TOKEN.match(text, pos)
        if not m2:
            raise Unsupported("cannot tokenise at %r" % text[pos:pos + 30])
        pos = m2.end()
        kk = m2.lastgroup
        if kk in ("ws", "comment"):
            continue
        toks.append((kk, m2.group(kk)))
    return toks


def parse_body(body):
    body = status_enum_casts(body)
    p = PE(lex_enc(body))
    st = p.stmt()
    if p.peek()[0] != "eof" or st[0] != "block":
        raise Unsupported("trailing tokens after an encoder body")
    return st[1]


# (lean name, file, class or None, signature regex, parameters [(c++ name, lean type, type tag)], result tag, callees)
def specs():
    HV = ("http_version", ("GenEnc.httpVersion", ["byte", "byte"], "bytes"))
    CLH = ("header_field::content_length", ("GenEnc.contentLengthHeader", ["nat"], "bytes"))
    return [
        ("httpVersion", "http/character.hpp", None, r"\binline\s+std::string\s+http_version\s*\(\s*char\s+major_version\s*,\s*char\s+minor_version\s*\)",
         [("major_version", "Byte", "byte"), ("minor_version", "Byte", "byte")], "bytes", {}),
        ("toHeader", "http/header_field.hpp", None, r"\binline\s+std::string\s+to_header\s*\(\s*std::string_view\s+name\s*,\s*std::string_view\s+value\s*\)",
         [("name", "Bytes", "bytes"), ("value", "Bytes", "bytes")], "bytes", {}),
        ("contentLengthHeader", "http/header_field.hpp", None, r"\binline\s+std::string\s+content_length\s*\(\s*size_t\s+size\s*\)",
         [("size", "Nat", "nat")], "bytes", {}),
        ("chunkedEncodingHeader", "http/header_field.hpp", None, r"\binline\s+std::string\s+chunked_encoding\s*\(\s*\)", [], "bytes", {}),
        ("contentPermitted", "http/response_status.hpp", None, r"\binline\s+bool\s+content_permitted\s*\(\s*int\s+status_code\s*\)\s*(?:noexcept)?",
         [("status_code", "Int", "int")], "bool", {}),
        ("requestLine", "http/request.hpp", "request_line", r"\bstd::string\s+to_string\s*\(\s*\)\s*const",
         [("method_", "Bytes", "bytes"), ("uri_", "Bytes", "bytes"), ("major_version_", "Byte", "byte"), ("minor_version_", "Byte", "byte")],
         "bytes", dict([HV])),
        ("txRequestMessage", "http/request.hpp", "tx_request", r"\bstd::string\s+message\s*\(\s*size_t\s+content_length\s*=\s*0\s*\)\s*const",
         [("method_", "Bytes", "bytes"), ("uri_", "Bytes", "bytes"), ("major_version_", "Byte", "byte"), ("minor_version_", "Byte", "byte"),
          ("header_string_", "Bytes", "bytes"), ("content_length", "Nat", "nat")], "bytes",
         dict([CLH, ("request_ln::to_string", ("GenEnc.requestLine method_ uri_ major_version_ minor_version_", [], "bytes"))])),
        ("responseLine", "http/response.hpp", "response_line", r"\bstd::string\s+to_string\s*\(\s*\)\s*const",
         [("major_version_", "Byte", "byte"), ("minor_version_", "Byte", "byte"), ("status_", "Int", "int"), ("reason_phrase_", "Bytes", "bytes")],
         "bytes", dict([HV])),
        ("txResponseMessage", "http/response.hpp", "tx_response", r"\bstd::string\s+message\s*\(\s*size_t\s+content_length\s*=\s*0\s*\)\s*const",
         [("major_version_", "Byte", "byte"), ("minor_version_", "Byte", "byte"), ("status_", "Int", "int"), ("reason_phrase_", "Bytes", "bytes"),
          ("header_string_", "Bytes", "bytes"), ("content_length", "Nat", "nat")], "bytes",
         dict([CLH, ("response_ln::to_string", ("GenEnc.responseLine major_version_ minor_version_ status_ reason_phrase_", [], "bytes")),
               ("response_status::content_permitted", ("GenEnc.contentPermitted", ["int"], "bool")),
               ("status", ("status_", [], "int"))])),
        ("chunkHeader", "http/chunk.hpp", "chunk_header", r"\bstd::string\s+to_string\s*\(\s*\)\s*const",
         [("hex_size_", "Bytes", "bytes"), ("extension_", "Bytes", "bytes")], "bytes", {}),
        ("lastChunk", "http/chunk.hpp", "last_chunk", r"\bstd::string\s+to_string\s*\(\s*\)\s*const",
         [("extension_", "Bytes", "bytes"), ("trailer_string_", "Bytes", "bytes")], "bytes", {}),
    ]


def _pe_stmt(self):
    """statements as in P, plus `for ( ; cond ; ++iter ) body` and `auto iter(x.cbegin());`"""
    k, v = self.peek()
    if v == "for":
        self.next()
        self.expect("(")
        if not self.accept(";"):
            raise Unsupported("for with an init statement")
        c = self.expr()
        self.expect(";")
        inc = self.expr()
        self.expect(")")
        return ("for", c, inc, self.stmt())
    return P.stmt(self)


PE.stmt = _pe_stmt


class GenScan:
    """`are_headers_split`: char locals, `for (; iter != x.cend(); ++iter)` over the argument, early `return`s"""

    def __init__(self, arg):
        self.arg = arg
        self.chars = []       # char locals in declaration order

    def ex(self, e):
        k = e[0]
        if k == "char":
            return str(e[1]), "byte"
        if k == "bool":
            return ("true" if e[1] else "false"), "bool"
        if k == "id" and e[1] in self.chars:
            return e[1], "byte"
        if k == "deref" and e[1] == ("id", "iter"):
            return "c", "byte"
        if k == "not":
            t, ty = self.ex(e[1])
            return "!" + t, "bool"
        if k in ("and", "or"):
            a, aty = self.ex(e[1])
            b, bty = self.ex(e[2])
            if aty != "bool" or bty != "bool":
                raise Unsupported("&& / || on non-booleans")
            return "(%s %s %s)" % (a, "&&" if k == "and" else "||", b), "bool"
        if k == "cmp" and e[1] in ("==", "!="):
            a, aty = self.ex(e[2])
            b, bty = self.ex(e[3])
            if aty != "byte" or bty != "byte":
                raise Unsupported("comparison in a scan")
            if e[2][0] == "char":
                a, b = b, a
            return "(%s %s %s)" % (a, e[1], b), "bool"
        if k == "call" and e[1] == ("member", ("id", self.arg), "empty") and not e[2]:
            return "%s.isEmpty" % self.arg, "bool"
        raise Unsupported("expression %r in a scan" % (e,))

    def body(self, stmts, k_end):
        if not stmts:
            return k_end
        st, rest = stmts[0], stmts[1:]
        k = st[0]
        if k == "block":
            return self.body(st[1] + rest, k_end)
        if k == "return":
            t, ty = self.ex(st[1])
            if ty != "bool":
                raise Unsupported("return of a %s" % ty)
            return t
        if k == "if":
            c, cty = self.ex(st[1])
            th = self.body([st[2]] + rest, k_end)
            el = self.body(([st[3]] if st[3] is not None else []) + rest, k_end)
            return "(if %s then %s else %s)" % (c, th, el)
        if k == "expr" and st[1][0] == "assign" and st[1][1] == "=" and st[1][2][0] == "id" and st[1][2][1] in self.chars:
            t, ty = self.ex(st[1][3])
            if ty != "byte":
                raise Unsupported("assignment of a %s to a char" % ty)
            return "let %s : Byte := %s; %s" % (st[1][2][1], t, self.body(rest, k_end))
        raise Unsupported("statement %r in a scan" % (k,))

    def function(self, stmts, name):
        # char locals, then optionally `if (!x.empty()) { auto iter(x.cbegin()); for (...) {...} }`, then the final return
        inits = []
        i = 0
        while i < len(stmts) and stmts[i][0] == "decl":
            t, ty = self.ex(stmts[i][2])
            if ty != "byte":
                raise Unsupported("char local initialised with a %s" % ty)
            self.chars.append(stmts[i][1])
            inits.append(t)
            i += 1
        rest = stmts[i:]
        if len(rest) != 2 or rest[1][0] != "return":
            raise Unsupported("shape of the scan function")
        after, aty = self.ex(rest[1][1])
        guard = None
        loop_holder = rest[0]
        if loop_holder[0] == "if" and loop_holder[3] is None:
            guard, gty = self.ex(loop_holder[1])
            inner = loop_holder[2][1] if loop_holder[2][0] == "block" else [loop_holder[2]]
        else:
            inner = [loop_holder]
        if len(inner) == 2 and inner[0][0] == "ldecl" and inner[0][1] == "auto" and inner[0][2] == "iter" and \
                inner[0][3] == ("call", ("member", ("id", self.arg), "cbegin"), []):
            inner = inner[1:]
        else:
            raise Unsupported("the scan does not start at cbegin()")
        if len(inner) != 1 or inner[0][0] != "for":
            raise Unsupported("shape of the scan loop")
        _, cond, inc, body = inner[0]
        if cond != ("cmp", "!=", ("id", "iter"), ("call", ("member", ("id", self.arg), "cend"), [])) or inc != ("preinc", ("id", "iter")):
            raise Unsupported("loop header of the scan")
        vs = " ".join(self.chars)
        step = self.body([body], "%s.loop %s cs" % (name, vs))
        loop = ("def %s.loop : %sBytes → Bool\n  | %s, [] => %s\n  | %s, c :: cs => %s\n" % (
            name, "Byte → " * len(self.chars), ", ".join(self.chars), after, ", ".join(self.chars), step))
        call = "%s.loop %s %s" % (name, " ".join(inits), self.arg)
        top = "(if %s then %s else %s)" % (guard, call, after) if guard is not None else call
        return loop, top


def translate_encoders():
    out = ["import ViaModel.Encode\n" + R.HEADER % ("the encoders (http_version, to_header, content_length, chunked_encoding, content_permitted, "
                                                   "request_line / response_line::to_string, tx_request / tx_response::message, "
                                                   "chunk_header / last_chunk::to_string)", "http/*.hpp", "ENC")]
    # how the chunk header's hex size is produced: `hex_size_(to_hex_string(size))` in the encoding constructor and in set_size
    ck = R.strip_comments(R.text_of("http/chunk.hpp"))
    ok_ctor = bool(re.search(r"explicit\s+chunk_header\s*\(\s*size_t\s+size[^{]*hex_size_\s*\(\s*to_hex_string\s*\(\s*size\s*\)\s*\)", ck, re.S))
    # set_size: exactly `size_ = size; hex_size_ = to_hex_string(size);`, unconditionally
    try:
        ss = parse_body(fn_body("http/chunk.hpp", r"\bvoid\s+set_size\s*\(\s*size_t\s+size\s*\)", "chunk_header"))
        ok_set = ss == [("expr", ("assign", "=", ("id", "size_"), ("id", "size"))),
                        ("expr", ("assign", "=", ("id", "hex_size_"), ("call", ("id", "to_hex_string"), [("id", "size")])))]
    except Unsupported:
        ok_set = False
    out.append("/-- the encoding constructor of `chunk_header` and `set_size` store `to_hex_string(size)` as the hex size -/\n"
               "def GenEnc.hexSizeFromToHexString : Bool := %s\n" % ("true" if (ok_ctor and ok_set) else "false"))
    for lname, rel, cls, sig, params, rty, calls in specs():
        stmts = parse_body(fn_body(rel, sig, cls))
        g = GenStr([(n, t) for (n, _, t) in params], calls)
        term = g.term(stmts, rty)
        ps = "".join(" (%s : %s)" % (n, lt) for (n, lt, _) in params)
        out.append("def GenEnc.%s%s : %s :=\n  %s\n" % (lname, ps, {"bytes": "Bytes", "bool": "Bool"}[rty], term))
    # are_headers_split (headers.hpp) and tx_response::is_valid (response.hpp)
    stmts = parse_body(fn_body("http/headers.hpp", r"\binline\s+bool\s+are_headers_split\s*\(\s*std::string_view\s+headers\s*\)\s*(?:noexcept)?"))
    loop, top = GenScan("headers").function(stmts, "GenEnc.split")
    out.append(loop)
    out.append("def GenEnc.areHeadersSplit (headers : Bytes) : Bool :=\n  %s\n" % top)
    stmts = parse_body(fn_body("http/response.hpp", r"\bbool\s+is_valid\s*\(\s*\)\s*const\s*(?:noexcept)?", "tx_response"))
    g = GenStr([("header_string_", "bytes")], {"are_headers_split": ("GenEnc.areHeadersSplit", ["bytes"], "bool")})
    out.append("def GenEnc.headersValid (header_string_ : Bytes) : Bool :=\n  %s\n" % g.term(stmts, "bool"))
    out.append("end Via\n")
    return "\n".join(out)
