"""History generator for the connection-layer checks (sim_driver scripts) and output canonicalisation."""
import re
from vlib import hx

CRLF = b"\r\n"


def req(method=b"GET", target=b"/", version=b"1.1", headers=(), body=b"", chunks=None, trailers=()):
    out = method + b" " + target + b" HTTP/" + version + CRLF
    for (n, v) in headers:
        out += n + b": " + v + CRLF
    out += CRLF
    if chunks is None:
        return out + body
    for c in chunks:
        out += b"%x" % len(c) + CRLF + c + CRLF
    out += b"0" + CRLF
    for (n, v) in trailers:
        out += n + b": " + v + CRLF
    return out + CRLF


HOST = (b"Host", b"a")


def request_pool(rng, policy):
    """(kind, bytes) — kind tags what the request is for the oracles"""
    pool = [
        ("get11", req(headers=[HOST])),
        ("get11", req(target=b"/x?y=1", headers=[HOST, (b"Accept", b"*/*")])),
        ("get10", req(version=b"1.0")),
        ("close", req(headers=[HOST, (b"Connection", rng.choice([b"close", b"Close", b"keep-alive, close", b"TE,close", b"close,TE",
                                                                  b"close ,TE", b"upgrade ,\tclose"]))])),
        ("close", req(headers=[HOST, (b"Connection", rng.choice([b"keep-alive", b"TE"])), (b"Connection", b"close")])),
        ("get11", req(headers=[HOST, (b"Connection", rng.choice([b"keep-alive", b"Keep-Alive,TE", b"upgrade"]))])),
        ("post", req(b"POST", b"/p", headers=[HOST, (b"Content-Length", b"5")], body=b"hello")),
        ("post0", req(b"POST", b"/p", headers=[HOST, (b"Content-Length", b"0")])),
        ("chunked", req(b"POST", b"/c", headers=[HOST, (b"Transfer-Encoding", b"chunked")], chunks=[b"abc", b"de"])),
        ("chunked", req(b"PUT", b"/c", headers=[HOST, (b"Transfer-Encoding", b"chunked")], chunks=[], trailers=[(b"T", b"1")])),
        ("head", req(b"HEAD", b"/h", headers=[HOST])),
        # HEAD with close semantics: the connection must be closed after the (body-less) response like after any other
        ("close", req(b"HEAD", b"/h", headers=[HOST, (b"Connection", rng.choice([b"close", b"Keep-Alive, CLOSE"]))])),
        ("get10", req(b"HEAD", b"/h", version=b"1.0")),
        ("expect-chunked", req(b"POST", b"/e", headers=[HOST, (b"Expect", b"100-continue"), (b"Transfer-Encoding", b"chunked")], chunks=[b"xyz"])),
        ("expect-cl", req(b"POST", b"/e", headers=[HOST, (b"Expect", b"100-Continue"), (b"Content-Length", b"4")], body=b"body")),
        ("expect-close", req(b"POST", b"/e", headers=[HOST, (b"Expect", b"100-continue"), (b"Connection", b"close"), (b"Content-Length", b"4")], body=b"body")),
        ("expect-10", req(b"POST", b"/e", version=b"1.0", headers=[(b"Expect", b"100-continue"), (b"Content-Length", b"2")], body=b"ok")),
        ("invalid", b"BAD" + CRLF + CRLF),
        ("invalid", req(headers=[])),                      # 1.1 without Host
        ("invalid", req(b"POST", headers=[HOST, (b"Content-Length", b"x")])),
        # HEAD requests that the library itself rejects: its error response, too, answers a HEAD request
        ("invalid", req(b"HEAD", b"/h", headers=[])),                                         # 1.1 without Host: 400
        ("invalid", req(b"HEAD", b"/h", headers=[HOST, (b"Content-Length", b"99999999999")])),  # 413
        ("invalid", req(b"HEAD", b"/h", headers=[HOST, (b"Content-Length", b"-1")])),          # 400
        ("toolong", req(b"ABCDEFGHIJ", headers=[HOST])),
        ("trace", req(b"TRACE", b"/t", headers=[HOST])),
    ]
    if policy == "router":
        pool += [
            ("route", req(target=b"/hello", headers=[HOST])),
            ("route", req(target=b"/hello/bob?x=1", headers=[HOST])),
            ("route", req(b"POST", b"/echo", headers=[HOST, (b"Content-Length", b"3")], body=b"abc")),
            ("route", req(b"PUT", b"/hello", headers=[HOST])),
            ("route", req(target=b"/nowhere", headers=[HOST])),
            ("route", req(target=b"/secret", headers=[HOST])),
            ("route", req(target=b"/secret", headers=[HOST, (b"Authorization", b"Basic dXNlcjpwYXNz")])),
            ("route", req(target=b"/secret", headers=[HOST, (b"Authorization", b"Basic")])),
            ("route", req(b"HEAD", b"/hello", headers=[HOST])),
        ]
    return pool


def split_reads(rng, data):
    k = rng.choice([1, 1, 1, 2, 2, 3])
    if k == 1 or len(data) < 3:
        return [data]
    cuts = sorted(set(rng.range(1, len(data) - 1) for _ in range(k - 1)))
    parts = []
    prev = 0
    for c in cuts:
        parts.append(data[prev:c])
        prev = c
    parts.append(data[prev:])
    return [p for p in parts if p]


def server_line(rng, force=None):
    o = {
        "cont": rng.choice(["s", "v"]),
        "flavour": rng.choice(["tcp", "tcp", "ssl"]),
        "policy": rng.choice(["sync", "sync", "sync", "sync", "sync", "sync", "deferred", "deferred", "router", "router", "none", "none", "disc"]),
        "chunkh": rng.choice([0, 0, 1]),
        "conth": rng.choice([0, 0, 1, 1, 2]),
        "invh": rng.choice([0, 0, 0, 1]),
        "senth": rng.choice([0, 1]),
        "trace": 0,
        "autodisc": rng.choice([0, 0, 1]),
        "translate": rng.choice([1, 1, 0]),
        "strict": rng.choice([0, 0, 1]),
        "resp": "fixed",
    }
    if o["policy"] == "sync" and rng.chance(1, 5):
        o["resp"] = "chunked"
    if o["policy"] == "router":
        o["chunkh"] = 0
    if rng.chance(1, 14) and not (force and "filter" in force):
        o["onconn"] = "disc"      # the connected handler turns the peer away (not in the every-request-is-answered scripts)
    if force:
        o.update(force)
    line = "server " + " ".join("%s=%s" % (k, v) for k, v in o.items())
    if rng.chance(1, 12) and not (force and "filter" in force):
        o["filter"] = rng.choice(["none", "even"])
        line += " filter=" + o["filter"]
    return line, o


def history(rng, force=None, nconn=None, teardown=None, length=None, avoid_overlap=True, sane=True):
    """one random connection history; returns (lines, opts)"""
    line, o = server_line(rng, force)
    lines = [line]
    ssl = o["flavour"] == "ssl"
    nconn = nconn or rng.choice([1, 1, 2, 3])
    pool = request_pool(rng, o["policy"])
    conns = []          # indices accepted
    late_hs = []        # connections whose (TLS) handshake completion is delivered at the end of the script
    nacc = 0
    pending_w = {}
    total = length or rng.range(6, 40)
    steps = 0
    while steps < total:
        steps += 1
        r = rng.below(100)
        if (not conns or (r < 8 and len(conns) < nconn)) and nacc < nconn + 2:
            opts = ""
            if rng.chance(1, 10):
                opts += " hs=fail"
            if rng.chance(1, 12):
                opts += " ep=throw"
            lines.append("accept" + opts)
            c = nacc
            nacc += 1
            # (a filter-rejected accept creates no cN; tracking by count of FakeAdaptors is approximated)
            if o.get("filter") == "none":
                continue
            if o.get("filter") == "even" and (nacc % 2 == 0):
                continue
            cid = len(conns) if o.get("filter") is None else len(conns)
            conns.append(len(conns))
            pending_w[conns[-1]] = 0
            if ssl:
                if rng.chance(1, 7):
                    # the handshake stays pending: whatever happens next (requests to other connections, teardown) happens
                    # with this connection half-established; its completion may arrive much later (or after the teardown)
                    late_hs.append(conns[-1])
                else:
                    lines.append("hs c%d %s" % (conns[-1], "fail" if rng.chance(1, 10) else "ok"))
            continue
        if not conns:
            continue
        c = rng.choice(conns)
        if r < 55:
            kind, data = rng.choice(pool)
            if rng.chance(1, 25):
                data = data + rng.choice(pool)[1]          # pipelined in one read
            for part in split_reads(rng, data):
                lines.append("read c%d %s" % (c, hx(part)))
                if rng.chance(3, 4) if avoid_overlap else rng.chance(1, 6):
                    lines.append("wdone c%d" % c)
            if o["policy"] == "deferred" and rng.chance(3, 4):
                if avoid_overlap:
                    lines.append("wdone c%d" % c)
                lines.append(app_send(rng, c))
            if avoid_overlap or rng.chance(3, 4):
                lines.append("wdone c%d" % c)
                if o["resp"] == "chunked":
                    lines += ["wdone c%d" % c] * 3
        elif r < 65:
            lines.append("wdone c%d" % c)
        elif r < 69:
            lines.append("rderr c%d %s" % (c, rng.choice(["eof", "reset", "aborted", "other", "ssl_short", "ssl_shutdown", "badfd", "opabort"])))
        elif r < 72:
            lines.append("werr c%d %s" % (c, rng.choice(["eof", "reset", "other", "ssl_short", "ssl_shutdown", "opabort"])))
        elif r < 76:
            lines.append("shutdone c%d %s" % (c, rng.choice(["ok", "ok", "eof", "ssl_short", "other", "reset"])))
        elif r < 78:
            lines.append("late c%d %s" % (c, rng.choice(["read", "write"])))
        elif r < 84:
            if sane and o["policy"] in ("sync", "router"):
                continue
            if avoid_overlap:
                lines.append("wdone c%d" % c)
            lines.append(app_send(rng, c))
            lines.append("wdone c%d" % c)
        elif r < 89 and sane:
            # a well-formed chunked response issued by the application: head, chunks, last chunk
            if o["policy"] in ("deferred", "none"):
                lines.append("wdone c%d" % c)
                lines.append("app-send c%d st=200 hs=%s" % (c, hx(b"Transfer-Encoding: Chunked\r\n")))
                lines.append("wdone c%d" % c)
                for _ in range(rng.range(0, 3)):
                    lines.append("app-chunk c%d d=%s%s" % (c, hx(rng.bytes(rng.range(1, 5))), rng.choice(["", " ext=6578", " ovl=bufs"])))
                    lines.append("wdone c%d" % c)
                lines.append("app-last c%d%s" % (c, rng.choice(["", " ext=78", " tr=" + hx(b"T: v\r\n")])))
                lines.append("wdone c%d" % c)
        elif r < 87:
            if avoid_overlap:
                lines.append("wdone c%d" % c)
            lines.append("app-chunk c%d d=%s%s" % (c, hx(rng.bytes(rng.range(0, 5))), rng.choice(["", " ext=6578", " ovl=bufs"])))
            lines.append("wdone c%d" % c)
        elif r < 89:
            if avoid_overlap:
                lines.append("wdone c%d" % c)
            lines.append("app-last c%d%s" % (c, rng.choice(["", " ext=78", " tr=" + hx(b"T: v\r\n")])))
            lines.append("wdone c%d" % c)
        elif r < 92:
            lines.append("app-disconnect c%d" % c)
        elif r < 93:
            if not sane:
                lines.append("app-respond c%d" % c)
        elif r < 96:
            lines.append("state")
        elif r < 97:
            lines.append("poll")
        else:
            lines.append("hs c%d ok" % c)
    td = teardown if teardown is not None else rng.choice([None, None, "srv-shutdown", "srv-close", "srv-destroy"])
    if td:
        lines.append(td)
        for c in conns:
            for _ in range(rng.range(0, 2)):
                lines.append(rng.choice(["wdone c%d", "shutdone c%d ok", "late c%d read", "late c%d write", "rderr c%d opabort", "werr c%d opabort"]) % c)
        lines.append("poll")
    lines.append("state")
    for c in late_hs:
        lines.append("hs c%d %s" % (c, rng.choice(["ok", "ok", "fail"])))
    if late_hs:
        lines.append("state")
    return lines, o


def app_send(rng, c):
    st = rng.choice([200, 200, 404, 204, 500, 100, 201, 205, 299, 301, 600, 999])
    args = ["app-send", "c%d" % c, "st=%d" % st]
    if rng.chance(1, 3):
        args.append("hs=" + hx(rng.choice([b"X-A: 1\r\n", b"X-A: 1\r\nX-B: 2\r\n", b"\r\nX: 1\r\n", b"X: y"])))
    if rng.chance(2, 3) and st not in (204, 100):
        args.append("b=" + hx(rng.bytes(rng.range(0, 20))))
        if rng.chance(1, 3):
            args.append("ovl=bufs")
    return " ".join(args)


DATE_RE = re.compile(r"446174653a20((?:[0-9a-f]{2}){29})0d0a")
EPOCH = b"Thu, 01 Jan 1970 00:00:00 GMT".hex()


def canon(lines):
    """canonical form shared by model and implementation transcripts: mask the port and the Date value, order the
    per-connection groups inside a teardown operation by connection number, drop the `;` markers"""
    out = []
    seg = []

    def flush():
        nonlocal seg
        if any(l.startswith(("io shutdown", "io close", "ev disconnected")) for l in seg) and len(set(re.findall(r" c(\d+)", " ".join(seg)))) > 1:
            def key(l):
                m = re.search(r" c(\d+)", l)
                return int(m.group(1)) if m else -1
            seg = sorted(seg, key=key)   # stable: keeps the order within one connection
        out.extend(seg)
        seg = []

    for l in lines:
        l = re.sub(r"port=\d+", "port=*", l)
        if l.startswith("io wire"):
            l = DATE_RE.sub(lambda m: "446174653a20" + EPOCH + "0d0a", l)
        if l == ";":
            flush()
        else:
            seg.append(l)
    flush()
    return out


def comparable(impl_lines, model_lines):
    """canonical transcripts cut at the first point where the model says the behaviour is a known finding
    (from there on the implementation's behaviour is undefined: buffers of a write in flight are reused)"""
    ml = canon(model_lines)
    il = canon(impl_lines)
    kf = None
    for i, l in enumerate(ml):
        if l.startswith("kf "):
            kf = l
            ml = ml[:i]
            il = il[:i]
            break
    return il, ml, kf
