"""Trace parsing and property oracles for the connection-layer checks (sim_driver transcripts).

The oracles look only at what the REAL templates printed (events, writes, wire bytes, shutdown/close calls);
they do not consult the model.
"""
import os
import re
import gen_http
from vlib import Case, hx, unhx
import gen_sim


class Seg:
    """the output of one script operation"""
    __slots__ = ("op", "lines")

    def __init__(self, op, lines):
        self.op = op
        self.lines = lines


def segments(case_lines, out):
    """pair every script operation with the lines it produced (the harness prints ';' after each operation)"""
    segs = []
    cur = []
    ops = list(case_lines)
    oi = 0
    for l in out:
        if l == ";":
            segs.append(Seg(ops[oi] if oi < len(ops) else "?", cur))
            oi += 1
            cur = []
        elif l == "end":
            break
        else:
            cur.append(l)
    tail = cur
    return segs, tail


def conn_of(line):
    m = re.search(r" c(\d+)", line)
    return int(m.group(1)) if m else None


class ConnTrace:
    def __init__(self):
        self.events = []        # (seg index, kind, line)
        self.io = []            # (seg index, kind, line)   kind in read write wire shutdown close
        self.wires = []         # bytes per completed write, in order
        self.requests = []      # (k, line) per `ev request`


def per_connection(segs):
    conns = {}
    k = 0
    for si, s in enumerate(segs):
        for l in s.lines:
            c = conn_of(l)
            if c is None:
                continue
            ct = conns.setdefault(c, ConnTrace())
            if l.startswith("ev "):
                kind = l.split()[1]
                ct.events.append((si, kind, l))
                if kind == "request":
                    k += 1
                    ct.requests.append((k, l))
            elif l.startswith("io "):
                kind = l.split()[1]
                ct.io.append((si, kind, l))
                if kind == "wire":
                    ct.wires.append(unhx(l.split()[3]))
    return conns


def aborted(out):
    for l in out:
        if l.startswith("abort"):
            return l
    return None


# ---------------------------------------------------------------------------------------------
# independent HTTP/1.1 response-stream grammar (C04)

TOKEN = re.compile(rb"^[!#$%&'*+\-.^_`|~0-9A-Za-z]+$")


def parse_responses(data, allow_headless_body=False, truncated_ok=False):
    """parse a byte string as a sequence of HTTP/1.1 responses; returns (list of dicts, error or None)"""
    res = []
    pos = 0
    n = len(data)
    while pos < n:
        eol = data.find(b"\r\n", pos)
        if eol < 0:
            return res, "status line not terminated at offset %d: %r" % (pos, data[pos:pos + 40])
        line = data[pos:eol]
        m = re.match(rb"^HTTP/(\d)\.(\d) (\d{3,5}) ([^\r\n]*)$", line)
        if not m:
            return res, "malformed status line %r" % line[:60]
        status = int(m.group(3))
        pos = eol + 2
        headers = []
        while True:
            eol = data.find(b"\r\n", pos)
            if eol < 0:
                return res, "header block not terminated"
            hl = data[pos:eol]
            pos = eol + 2
            if hl == b"":
                break
            if b"\n" in hl or b"\r" in hl:
                return res, "bare CR/LF inside header line %r" % hl[:60]
            if b":" not in hl:
                return res, "header line without colon %r" % hl[:60]
            name, value = hl.split(b":", 1)
            if not TOKEN.match(name):
                return res, "header name is not a token: %r" % name[:40]
            headers.append((name.lower(), value.strip()))
        cls = [v for (nm, v) in headers if nm == b"content-length"]
        tes = [v for (nm, v) in headers if nm == b"transfer-encoding"]
        r = {"status": status, "headers": headers, "body": b"", "chunks": None, "head_only": False}
        if len(cls) > 1:
            return res, "more than one Content-Length header"
        if status < 200 or status in (204, 304):
            if cls and int(cls[0]) != 0 and status in (204, 304):
                pass
            res.append(r)
            continue
        if tes and b"chunked" in tes[-1].lower():
            r["chunks"] = []
            while True:
                eol = data.find(b"\r\n", pos)
                if eol < 0:
                    if truncated_ok and pos >= n:
                        res.append(r)
                        return res, None
                    return res, "chunk size line not terminated at offset %d: %r" % (pos, data[pos:pos + 20])
                sl = data[pos:eol]
                mm = re.match(rb"^([0-9a-fA-F]+)(;[^\r\n]*)?$", sl)
                if not mm:
                    return res, "malformed chunk size line %r" % sl[:40]
                size = int(mm.group(1), 16)
                pos = eol + 2
                if size == 0:
                    # trailers
                    while True:
                        eol = data.find(b"\r\n", pos)
                        if eol < 0:
                            return res, "trailers not terminated"
                        tl = data[pos:eol]
                        pos = eol + 2
                        if tl == b"":
                            break
                        if b":" not in tl:
                            return res, "trailer line without colon %r" % tl[:40]
                    break
                if pos + size + 2 > n:
                    return res, "chunk of %d bytes truncated" % size
                r["chunks"].append(data[pos:pos + size])
                if data[pos + size:pos + size + 2] != b"\r\n":
                    return res, "chunk data not followed by CRLF: %r" % data[pos + size:pos + size + 3]
                pos += size + 2
            res.append(r)
            continue
        if not cls:
            return res, "response %d permits a body but carries neither Content-Length nor Transfer-Encoding" % status
        if not re.match(rb"^\d+$", cls[0]):
            return res, "Content-Length is not a number: %r" % cls[0]
        clen = int(cls[0])
        if allow_headless_body and (pos == n or data[pos:pos + 5] == b"HTTP/") and clen > 0 and not (pos + clen <= n and data[pos + clen:pos + clen + 5] in (b"HTTP/", b"")):
            r["head_only"] = True
            res.append(r)
            continue
        if allow_headless_body and clen > 0 and pos == n:
            r["head_only"] = True
            res.append(r)
            continue
        if pos + clen > n:
            return res, "body of %d bytes announced, only %d present" % (clen, n - pos)
        r["body"] = data[pos:pos + clen]
        pos += clen
        res.append(r)
    return res, None


# ---------------------------------------------------------------------------------------------
# generation shared by the sim plug-ins

def make_cases(prefix, tier, rng, count_quick, count_thorough, **kw):
    n = count_quick if tier == "quick" else count_thorough
    cases = []
    for i in range(n):
        lines, o = gen_sim.history(rng, **kw)
        cases.append(Case("%s-%d" % (prefix, i), lines, {"opts": o, "tags": [o["flavour"], o["policy"]]}))
    return cases


def corpus_cases(prop):
    """witness scripts of repaired defects and known findings run first"""
    import os
    d = os.path.join(os.path.dirname(os.path.dirname(os.path.abspath(__file__))), "corpus", "sim")
    cases = []
    if not os.path.isdir(d):
        return cases
    for fn in sorted(os.listdir(d)):
        txt = open(os.path.join(d, fn)).read()
        if ("# property %s" % prop) not in txt:
            continue
        lines = [l for l in txt.splitlines() if l and not l.startswith("#") and not l.startswith("case ")]
        opts = {}
        for tok in lines[0].split()[1:]:
            if "=" in tok:
                a, b = tok.split("=", 1)
                opts[a] = b
        opts.setdefault("flavour", "tcp")
        opts.setdefault("policy", "sync")
        cases.append(Case("corpus-" + fn[:-4], lines, {"opts": opts, "tags": ["corpus"], "corpus": True}))
    return cases


# ---------------------------------------------------------------------------------------------
# oracles

def keepalive_of(reqline):
    """from an `ev request` line: does HTTP keep the connection open after this request"""
    m = re.search(r" v=([0-9a-f]{4})", reqline)
    v = bytes.fromhex(m.group(1)) if m else b"11"
    early = v[0:1] == b"0" or v == b"10"
    h = re.search(r" h=(\S+)", reqline).group(1)
    conn = b""
    if h != "-":
        for kv in h.split(","):
            n, val = kv.split(":")
            if unhx(n) == b"connection":
                conn = unhx(val)
    return (not early) and not gen_http.has_close_option(conn)


def oracle_c10(case, out):
    ab = aborted(out)
    if ab:
        return "the library aborted or let an exception escape into the event loop: " + ab
    segs, _ = segments(case.lines, out)
    conns = per_connection(segs)
    for c, ct in conns.items():
        kinds = [k for (_, k, _) in ct.events]
        if kinds.count("connected") > 1:
            return "c%d: connected signalled %d times" % (c, kinds.count("connected"))
        if kinds and kinds[0] != "connected":
            return "c%d: %s event before connected" % (c, kinds[0])
        if kinds.count("disconnected") > 1:
            return "c%d: disconnected signalled %d times" % (c, kinds.count("disconnected"))
        if "disconnected" in kinds and kinds[-1] != "disconnected":
            return "c%d: event %s after disconnected" % (c, kinds[kinds.index("disconnected") + 1])
    seen_ids, closed_ids = set(), set()
    for si, s in enumerate(segs):
        for l in s.lines:
            mm = re.match(r"(?:accepted|ev \w+|io \w+) c(\d+)\b", l)
            if mm:
                seen_ids.add(int(mm.group(1)))
                if l.startswith("io close c"):
                    closed_ids.add(int(mm.group(1)))
            if l.startswith("state "):
                m = re.match(r"state adaptors=(\d+) http=(\d+) comms=(\d+)", l)
                a, h, cm = int(m.group(1)), int(m.group(2)), int(m.group(3))
                destroyed = any(x.op.startswith("srv-destroy") for x in segs[:si + 1])
                if not destroyed and (a != cm or h > cm):
                    return "after %d operations the server retains %d connections (%d http) but %d are open" % (si, cm, h, a)
                # independent of the adaptor count: a connection whose socket the library has closed is forgotten
                open_now = len(seen_ids - closed_ids)
                if not destroyed and cm > open_now:
                    return ("after %d operations the server retains %d connections but only %d sockets are still open "
                            "(%d connections seen, %d closed)" % (si, cm, open_now, len(seen_ids), len(closed_ids)))
        if s.op.startswith("accept") and "rejected" in s.lines and any(l.startswith("ev ") for l in s.lines):
            return "a connection refused by the filter produced an event"
    # a connection that was connected and whose socket was closed must have been disconnected exactly once,
    # unless the whole server was closed/destroyed (known finding: close() drops connections silently)
    torn = any(s.op.startswith(("srv-close", "srv-destroy")) for s in segs)
    for c, ct in conns.items():
        kinds = [k for (_, k, _) in ct.events]
        closed = any(k == "close" for (_, k, _) in ct.io)
        if "connected" in kinds and closed and "disconnected" not in kinds and not torn:
            # closed inside a shutdown that ended with the automatic close() is also silent
            if not any(s.op.startswith("srv-shutdown") for s in segs):
                return "c%d was connected and its socket closed but disconnected was never signalled" % c
    return None


def oracle_c11(case, out):
    ab = aborted(out)
    if ab:
        return "teardown is not safe: " + ab
    segs, tail = segments(case.lines, out)
    if any(l.startswith("abort") for l in tail):
        return "crash while destroying the remaining objects"
    td = None
    for si, s in enumerate(segs):
        if s.op.startswith(("srv-close", "srv-destroy")):
            td = si
    if td is not None:
        # after close()/destruction and one poll the loop must have nothing left and no connection may survive
        polled = False
        for s in segs[td + 1:]:
            if s.op == "poll":
                polled = True
            for l in s.lines:
                if l.startswith("ev "):
                    return "callback %r after the server was closed" % l
                if l.startswith("state ") and polled:
                    if not l.startswith("state adaptors=0 http=0 comms=0 pending=0"):
                        return "after close/destroy + poll: %s" % l
    conns = per_connection(segs)
    for c, ct in conns.items():
        kinds = [k for (_, k, _) in ct.events]
        if kinds.count("disconnected") > 1:
            return "c%d: disconnected signalled %d times" % (c, kinds.count("disconnected"))
    if case.meta.get("full_shutdown"):
        last_state = [l for s in segs for l in s.lines if l.startswith("state ")][-1:]
        if last_state and not last_state[0].startswith("state adaptors=0 http=0 comms=0 pending=0"):
            return "after shutdown() and all completions: %s" % last_state[0]
        for c, ct in conns.items():
            kinds = [k for (_, k, _) in ct.events]
            if "connected" in kinds and kinds.count("disconnected") != 1:
                return "c%d: connected but disconnected signalled %d times after shutdown()" % (c, kinds.count("disconnected"))
    return None


def oracle_c04(case, out):
    ab = aborted(out)
    if ab:
        return "abort: " + ab
    segs, _ = segments(case.lines, out)
    conns = per_connection(segs)
    for c, ct in conns.items():
        data = b"".join(ct.wires)
        if not data:
            continue
        # a HEAD request on this connection (its bytes may be spread over several reads): its response has no body
        rx = b"".join(bytes.fromhex(l.split()[2]) for l in case.lines
                      if l.startswith("read c%d " % c) and len(l.split()) > 2 and l.split()[2] != "-")
        has_head = b"HEAD" in rx or any(" head=1" in l for (_, l) in ct.requests)
        res, err = parse_responses(data, allow_headless_body=has_head, truncated_ok=True)
        if err:
            return "c%d wrote bytes that are not well-formed HTTP/1.1: %s\n  stream: %r" % (c, err, data[:300])
        # the ONLY request this connection ever received is a HEAD request (valid or not): whatever the server answered —
        # the application's response or the library's own error response — answers a HEAD request and carries no body
        # (only where every response is the library's or its handler's immediate answer: a response the application
        # issues later, on its own, is judged by C14 and its known finding)
        o = case.meta.get("opts", {})
        app_driven = o.get("policy") not in ("sync", "router") or any(
            l.startswith("app-send c%d " % c) or l.startswith("app-chunk c%d " % c) or l.startswith("app-last c%d " % c) for l in case.lines)
        if not app_driven and rx.startswith(b"HEAD ") and rx.count(b"HTTP/1.") == 1 and b"\r\n\r\n" in rx and \
                rx.index(b"\r\n\r\n") + 4 == len(rx):
            for r in res:
                if r["status"] >= 200 and r["body"]:
                    return ("c%d: the response %d to a HEAD request (the only request on the connection) carries the body %r: "
                            "bytes outside the message structure" % (c, r["status"], r["body"][:60]))
    return None


def oracle_c03(case, out):
    ab = aborted(out)
    if ab:
        return "abort: " + ab
    o = case.meta.get("opts", {})
    if o.get("policy") != "sync":
        return None
    segs, _ = segments(case.lines, out)
    conns = per_connection(segs)
    for c, ct in conns.items():
        asked = [(k, " head=1" in l) for (k, l) in ct.requests]
        data = b"".join(ct.wires)
        if o.get("resp") == "chunked":
            # (see below) with both an expect-continue handler and a chunk handler registered, a chunked Expect request is
            # answered without a request event of its own: the numbering by request events does not apply
            if str(o.get("conth")) in ("1", "2") and str(o.get("chunkh")) == "1" and \
                    any(k == "continue" and " chunked=1" in l for (_, k, l) in ct.events):
                continue
            got = [int(x) for x in re.findall(rb"\r\n2\r\na(\d)\r\n", data)]
            gotb = [int(x) for x in re.findall(rb"\r\n2\r\nb(\d)\r\n", data)]
            if any(k > 9 for (k, _) in asked):
                continue
            want = [k for (k, h) in asked]
            if gotb != got[:len(gotb)]:
                return "c%d: chunk sequences interleaved: a%s b%s" % (c, got, gotb)
            if got != want[:len(got)]:
                return "c%d: requests %s were answered as %s (order / duplication / loss)" % (c, want, got)
            continue
        res, err = parse_responses(data, allow_headless_body=True, truncated_ok=True)
        answers = [r for r in res if r["status"] == 200]
        if err and not answers:
            continue          # not a C03 matter (C04 judges the grammar)
        # with an expect-continue handler AND a chunk handler registered the head of a chunked Expect request reaches
        # the application through the expect-continue event only (documented: that handler is a RequestHandler)
        cont_only = 0
        if str(o.get("conth")) in ("1", "2") and str(o.get("chunkh")) == "1":
            cont_only = sum(1 for (_, k, l) in ct.events if k == "continue" and " chunked=1" in l)
        if len(answers) > len(asked) + cont_only:
            return "c%d: %d final responses for %d requests (duplication)" % (c, len(answers), len(asked) + cont_only)
        if cont_only:
            continue
        for (k, is_head), r in zip(asked, answers):
            body = b"r%d" % k
            if is_head:
                cl = dict(r["headers"]).get(b"content-length")
                if r["body"] or cl != b"%d" % len(body):
                    return "c%d: HEAD request #%d answered with body %r / Content-Length %r" % (c, k, r["body"], cl)
            elif r["body"] != body:
                return ("c%d: the response in position of request #%d carries %r instead of %r (requests %s): lost, "
                        "duplicated or out of order" % (c, k, r["body"], body, [a for a, _ in asked]))
        ended = any(k in ("shutdown", "close") for (_, k, _) in ct.io)
        started = sum(1 for (_, k, _) in ct.io if k == "write")
        done = sum(1 for (_, k, _) in ct.io if k == "wire")
        if not ended and started == done and not err and len(answers) != len(asked):
            return ("c%d: %d requests were delivered, %d final responses were written although the peer stayed connected "
                    "and every write completed" % (c, len(asked), len(answers)))
    return None


def oracle_c09(case, out):
    ab = aborted(out)
    if ab:
        return "abort: " + ab
    o = case.meta.get("opts", {})
    segs, _ = segments(case.lines, out)
    pending = {}     # conn -> unresolved writes
    for si, s in enumerate(segs):
        for l in s.lines:
            c = conn_of(l)
            if l.startswith("io write"):
                pending[c] = pending.get(c, 0) + 1
            elif l.startswith("io wire"):
                pending[c] = max(0, pending.get(c, 0) - 1)
            elif l.startswith("io shutdown"):
                peer_caused = s.op.startswith(("rderr", "werr", "hs "))
                if pending.get(c, 0) > 0 and not peer_caused:
                    return ("c%d: the connection was shut down in operation %r while a response write was still in "
                            "flight: the response is cut short" % (c, s.op))
    # known-finding families: the close decision of a deferred response / of a chunked answer
    if o.get("policy") == "deferred":
        last_req = {}
        for si, s in enumerate(segs):
            for l in s.lines:
                if l.startswith("ev request"):
                    last_req[conn_of(l)] = l
            if s.op.startswith("app-send") and " st=100" not in s.op and any(l.startswith("io write") for l in s.lines):
                c = conn_of(" " + s.op.split()[1])
                rq = last_req.pop(c, None)
                if rq is not None and not keepalive_of(rq):
                    # the wire of this write must be followed by a shutdown
                    later = [l for x in segs[si:] for l in x.lines]
                    if any(l.startswith("io wire c%d" % c) for l in later) and not any(l.startswith("io shutdown c%d" % c) for l in later):
                        return "c%d: response to a non keep-alive request completed but the connection was not closed (deferred response)" % c
    if o.get("policy") == "sync" and o.get("resp") == "chunked":
        for c, ct in per_connection(segs).items():
            for (k, l) in ct.requests:
                if not keepalive_of(l):
                    data = b"".join(ct.wires)
                    if b"\r\n0\r\n\r\n" not in data and any(kk == "shutdown" for (_, kk, _) in ct.io):
                        return "c%d: the chunked response to a non keep-alive request was cut off by the close before its last chunk" % c
    # close iff HTTP says so, for responses issued inside the handler (policy sync, fixed-length answers)
    if o.get("policy") == "sync" and o.get("resp", "fixed") == "fixed":
        expect = {}      # conn -> list of close-expected flags per response write in order
        for si, s in enumerate(segs):
            lines = s.lines
            for li, l in enumerate(lines):
                if l.startswith("ev request") and li + 1 < len(lines) and lines[li + 1].startswith("io write"):
                    c = conn_of(l)
                    expect.setdefault(c, []).append(("final", not keepalive_of(l)))
                elif l.startswith("io write") and not (li > 0 and lines[li - 1].startswith("ev request")):
                    c = conn_of(l)
                    expect.setdefault(c, []).append(("other", None))
            for li, l in enumerate(lines):
                if l.startswith("io wire"):
                    c = conn_of(l)
                    if expect.get(c):
                        kind, close = expect[c].pop(0)
                        shut = any(x.startswith("io shutdown c%d" % c) for x in lines[li + 1:])
                        if kind == "final" and s.op.startswith("wdone"):
                            if close and not shut:
                                return "c%d: response to a non keep-alive request completed but the connection was not closed" % c
                            if (not close) and shut and not any(x.op.startswith(("app-disconnect", "srv-shutdown")) for x in segs[:si]):
                                return "c%d: keep-alive connection closed after the response" % c
    return None


def oracle_c14(case, out):
    ab = aborted(out)
    if ab:
        return "abort: " + ab
    segs, _ = segments(case.lines, out)
    o = case.meta.get("opts", {})
    for s in segs:
        lines = s.lines
        for li, l in enumerate(lines):
            if l.startswith("ev request") and " head=1" in l:
                want_get = o.get("translate", "1") in (1, "1")
                m = re.search(r" m=([0-9a-f]+)", l).group(1)
                if want_get and unhx(m) != b"GET":
                    return "HEAD translation is on but the handler saw method %r" % unhx(m)
                if not want_get and unhx(m) != b"HEAD":
                    return "HEAD translation is off but the handler saw method %r" % unhx(m)
    # a response issued later (policy deferred) to a HEAD request: known-finding family
    if o.get("policy") == "deferred":
        head_pending = {}
        for si, s in enumerate(segs):
            for l in s.lines:
                if l.startswith("ev request"):
                    head_pending[conn_of(l)] = " head=1" in l
            if s.op.startswith("app-send") and " b=" in s.op:
                c = conn_of(" " + s.op.split()[1])
                if head_pending.pop(c, False):
                    body = unhx(s.op.split(" b=")[1].split()[0])
                    n = [l for l in s.lines if l.startswith("io write c%d" % c)]
                    if n and body and int(n[0].split("n=")[1]) > 0:
                        hdr_len = None
                        later = [l for x in segs[si:] for l in x.lines if l.startswith("io wire c%d" % c)]
                        if later and unhx(later[0].split()[3]).endswith(body) and not unhx(later[0].split()[3]).endswith(b"\r\n\r\n"):
                            return "c%d: the response to a HEAD request carries the body %r (response issued after the handler returned)" % (c, body)
    # the wire of every response to a HEAD request: head only
    conns = per_connection(segs)
    for c, ct in conns.items():
        heads = [(k, l) for (k, l) in ct.requests if " head=1" in l]
        if not heads or o.get("policy") != "sync" or o.get("resp", "fixed") != "fixed":
            continue
        data = b"".join(ct.wires)
        for (k, l) in heads:
            body = b"r%d" % k
            # the GET twin would be "...Content-Length: <len>\r\n\r\n<body>"; the HEAD answer must carry the same header and no body
            hdr = b"Content-Length: %d\r\n\r\n" % len(body)
            idx = [m.start() for m in re.finditer(re.escape(hdr), data)]
            if (b"\r\n\r\n" + body) in data:
                return "c%d: the response to HEAD request #%d carries the body %r" % (c, k, body)
    # the stream of one connection, response by response: the head written for a HEAD request is followed by the next
    # response (or nothing), never by body bytes — not its own body, and not bytes left over from an earlier response
    heads = case.meta.get("heads14")
    if heads is not None and 0 in conns and not case.meta.get("kf"):
        data = b"".join(conns[0].wires)
        pos = 0
        for ri, is_head in enumerate(heads):
            if pos >= len(data):
                break
            if not data.startswith(b"HTTP/", pos):
                return "c0: response #%d does not start where response #%d ended: %r" % (ri + 1, ri, data[max(0, pos - 20):pos + 40])
            end = data.find(b"\r\n\r\n", pos)
            if end < 0:
                break
            m = re.search(rb"\r\nContent-Length: (\d+)\r\n", data[pos:end + 2])
            cl = int(m.group(1)) if m else 0
            pos = end + 4
            if is_head and o.get("policy") == "sync" and o.get("resp", "fixed") == "fixed":
                # the GET twin of request #k carries the body r<k>: the HEAD answer announces that length
                want_cl = len(b"r%d" % (ri + 1))
                if not m or cl != want_cl:
                    return ("c0: the response to HEAD request #%d announces Content-Length %s; the same response to GET carries a "
                            "%d byte body" % (ri + 1, cl if m else "(none)", want_cl))
            if is_head:
                if pos < len(data) and not data.startswith(b"HTTP/", pos):
                    return ("c0: the head of the response to HEAD request #%d is followed by %r: a HEAD response carries no "
                            "body bytes" % (ri + 1, data[pos:pos + 40]))
            else:
                pos += cl
    return None


def oracle_c15(case, out):
    ab = aborted(out)
    if ab:
        return "abort: " + ab
    o = case.meta.get("opts", {})
    segs, _ = segments(case.lines, out)
    exp = case.meta.get("expect15")
    if not exp:
        return None
    # exp: list of (segment index of the read that completes the head, conn, kind)
    conns = per_connection(segs)
    for (si, c, kind) in exp:
        if si >= len(segs):
            continue
        s = segs[si]
        cont_writes = 0
        wi = 0
        handler = sum(1 for l in s.lines if l.startswith("ev continue c%d " % c))
        # writes started in this segment and their eventual wire bytes
        ct = conns.get(c)
        if ct is None:
            return "no activity for c%d" % c
        started = [i for i, (sj, k, l) in enumerate(ct.io) if sj == si and k == "write"]
        n100 = 0
        for idx in started:
            order = sum(1 for (_, k, _) in ct.io[:idx + 1] if k == "write")
            if order - 1 < len(ct.wires) and ct.wires[order - 1].startswith(b"HTTP/1.1 100 Continue\r\n"):
                n100 += 1
            elif order - 1 >= len(ct.wires):
                n100 += 1      # write not completed in this script: counted by its start
        if kind == "none":
            if n100 or handler:
                return "c%d: interim response / expect-continue event for a request that must not get one" % c
        elif o.get("conth") in (1, "1", 2, "2"):
            if handler != 1:
                return "c%d: expect-continue handler invoked %d times for one request" % (c, handler)
        else:
            if n100 != 1:
                return "c%d: %d automatic 100 Continue responses before the server waits for the body (exactly one required)" % (c, n100)
    return None


def oracle_c19(case, out):
    ab = aborted(out)
    if ab:
        return "abort: " + ab
    segs, _ = segments(case.lines, out)
    conns = per_connection(segs)
    for c, ct in conns.items():
        kinds = [k for (_, k, _) in ct.io]
        if "close" in kinds:
            ci = kinds.index("close")
            lib_ended = "shutdown" in kinds
            # when the library ends the connection after a response, close_notify (shutdown) comes after the last wire
            # and before close
            if lib_ended:
                shi = kinds.index("shutdown")
                if shi > ci:
                    return "c%d: socket closed before the TLS shutdown (close_notify) was sent" % c
                unresolved = 0
                for k in kinds[:shi]:
                    if k == "write":
                        unresolved += 1
                    elif k == "wire":
                        unresolved -= 1
                segop = segs[ct.io[shi][0]].op
                if unresolved > 0 and not segop.startswith(("rderr", "werr")):
                    return "c%d: close_notify sent while a response write was still in flight (operation %r)" % (c, segop)
    return oracle_c10(case, out)


# ---------------------------------------------------------------------------------------------
# plug-in scaffolding shared by the connection-layer properties

SIM_TRUSTED = ["Lean 4.33 kernel", "axioms: propext, Classical.choice, Quot.sound at most",
               "sim_driver: the real http_server / http_connection / comms::server / comms::connection templates over "
               "FakeAdaptor (harness/fake_adaptor.hpp), whose completion contract (tcp: synchronous handshake and shutdown; "
               "ssl: asynchronous handshake, shutdown = cancel + asynchronous close_notify) is an assumption about asio / "
               "the kernel / OpenSSL, validated only by the loopback runs of the thorough tier",
               "via_model driver (ViaModel/Conn.lean, SimDriver.lean)",
               "the connection layer itself (connection.hpp, server.hpp, http_connection.hpp, http_server.hpp) is NOT translated: Conn.lean is tied to it by the differential correspondence on generated event histories only; the receiver, predicate and encoder functions it calls are translated (ViaProofs/Trans)"]
SIM_ASSUMPTIONS = ["single-threaded event loop; thread-pool interleavings are the subject of C12",
                   "the application is the scripted one of sim_driver (answers inside the handler, later, through the router, "
                   "or chunk by chunk on SENT)",
                   "histories in which a send is issued while a write is in flight are compared up to that point only "
                   "(known finding: the response is dropped and the buffers of the write in flight are reused)"]


def compare(case, il, ml):
    a, b, kf = gen_sim.comparable(il, ml)
    case.meta["kf"] = kf
    if kf:
        case.meta["cut_n"] = len(b)
    return a == b


def cut(case, out):
    """the implementation transcript up to the point where the model marks the history as a known finding of C03
    (a send overlapping a write in flight: from there on buffers of the write in flight are freed / reused)"""
    n = case.meta.get("cut_n")
    if n is None:
        return out
    res = []
    k = 0
    for l in out:
        if l != ";":
            if k >= n:
                break
            k += 1
        res.append(l)
    return res


def classify_kf(case, fail, il, findings, mapping):
    """mapping: list of (finding id, predicate(case, fail, il))"""
    ids = set(f["id"] for f in findings)
    for fid, pred in mapping:
        if fid in ids and pred(case, fail, il):
            return fid
    return None


# ---------------------------------------------------------------------------------------------
# validation of the adaptor contract on real loopback sockets (net_driver)

def net_bigbody_checks(tier, binaries, log, variants, prop):
    """the response to a non keep-alive request must arrive complete, whatever its size and however slowly the peer
    reads; over TLS the end must be a clean close_notify"""
    import re
    import subprocess
    import vlib
    res = []
    samples = []
    n = 0
    sizes = [8388608] if tier == "quick" else [100, 8388608, 33554432]
    versions = ["1.0"] if tier == "quick" else ["1.0", "1.1close", "1.1"]
    for h in variants:
        try:
            binary = binaries.get(h) or vlib.build_harness(h, log)
        except vlib.BuildError as e:
            res.append((False, "net_driver (%s) does not build against the current tree: %s" % (h, str(e)[-300:]), "build " + h, {}))
            continue
        for size in sizes:
            for v in versions:
                args = ["bigbody", "size=%d" % size, "version=" + v, "delay_ms=300"]
                try:
                    r = subprocess.run([binary] + args, capture_output=True, text=True, timeout=120)
                except subprocess.TimeoutExpired:
                    res.append((False, "net_driver %s hung" % " ".join(args), "%s %s" % (h, " ".join(args)), {}))
                    continue
                m = re.search(r"^RESULT (.*)$", r.stdout, re.M)
                n += 1
                cmdline = "%s %s" % (h, " ".join(args))
                if not m:
                    res.append((False, "net_driver failed: " + (r.stdout + r.stderr)[-300:], cmdline, {}))
                    continue
                kv = dict(x.split("=", 1) for x in m.group(1).split() if "=" in x)
                samples.append({"variant": h, "size": size, "version": v, "received_body": kv.get("received_body"), "end": kv.get("end")})
                if kv.get("complete") != "1":
                    res.append((False, "real socket (%s): the response to an HTTP %s request announced %d body bytes, the peer received %s before %s"
                                % (h, v, size, kv.get("received_body"), kv.get("end")), cmdline, {}))
                elif v != "1.1" and h.endswith("tls") and kv.get("end") != "tls_close_notify":
                    res.append((False, "TLS: the connection ended with %s instead of a close_notify after the last response byte" % kv.get("end"), cmdline, {}))
                elif v != "1.1" and kv.get("end") not in ("eof", "tls_close_notify"):
                    res.append((False, "the connection of a non keep-alive request ended with %s" % kv.get("end"), cmdline, {}))
                elif v == "1.1" and kv.get("end") != "open":
                    res.append((False, "a keep-alive connection was closed after the response (%s)" % kv.get("end"), cmdline, {}))
    res.append((True, "", "", {"real_socket_runs": n, "real_socket_samples": samples}))
    return res


def net_abrupt_checks(tier, binaries, log, variants, prop, tls_midresp=True):
    """peers that end their connection without any goodbye (TLS: no close_notify), idle or after a complete
    keep-alive exchange: the server must signal disconnected for every connection it signalled as connected"""
    import re
    import subprocess
    import vlib
    res = []
    n = 0
    samples = []
    for h in variants:
        try:
            binary = binaries.get(h) or vlib.build_harness(h, log)
        except vlib.BuildError as e:
            res.append((False, "net_driver (%s) does not build against the current tree: %s" % (h, str(e)[-300:]), "build " + h, {}))
            continue
        # midresp: the peer closes its socket with most of a large response unread (reset while the write is in flight)
        failed_mid = False
        for mode in ("idle", "afterresp") + ("midresp",) * 9:
            if mode == "midresp" and failed_mid:
                continue
            if mode == "midresp" and h.endswith("tls") and not tls_midresp:
                continue        # the TLS crash in this mode is C19's known finding C19-KF1; it is judged there
            n_conn = (4 if tier == "quick" else 40)
            if mode == "midresp":
                n_conn = 16 if tier == "quick" else 64
            args = ["abrupt", "n=%d" % n_conn, "mode=" + mode]
            if mode == "midresp":
                # how much of the response the peer reads before it closes decides which completions are queued when
                # the reset arrives: three different amounts
                nmid = getattr(net_abrupt_checks, "_k", 0)
                net_abrupt_checks._k = nmid + 1
                args.append("read=%d" % [1024, 65536, 1048576][nmid % 3])
            cmdline = "%s %s" % (h, " ".join(args))
            try:
                r = subprocess.run([binary] + args, capture_output=True, text=True, timeout=180)
            except subprocess.TimeoutExpired:
                res.append((False, "net_driver %s hung" % " ".join(args), cmdline, {}))
                continue
            m = re.search(r"^RESULT (.*)$", r.stdout, re.M)
            n += 1
            if not m:
                res.append((False, "abort: net_driver failed (exit status %d%s): %s" % (
                    r.returncode, ", the server crashed" if r.returncode < 0 else "", (r.stdout + r.stderr)[-300:]), cmdline, {}))
                failed_mid = failed_mid or mode == "midresp"
                continue
            kv = dict(x.split("=", 1) for x in m.group(1).split() if "=" in x)
            samples.append({"variant": h, "mode": mode, "connected": kv.get("connected"), "disconnected": kv.get("disconnected")})
            if kv.get("connected") != kv.get("disconnected"):
                res.append((False, "real socket (%s): %s connections were signalled as connected, their peers closed the socket "
                            "(%s) and only %s were ever signalled as disconnected: the server retains the rest" % (
                                h, kv.get("connected"), mode, kv.get("disconnected")), cmdline, {}))
            elif kv.get("srv_exceptions") != "0":
                res.append((False, "real socket (%s): an exception escaped into the event loop (%s)" % (h, kv.get("srv_exception")), cmdline, {}))
    res.append((True, "", "", {"real_socket_abrupt_close_runs": n, "real_socket_abrupt_samples": samples}))
    return res


def net_twoshut_checks(tier, binaries, log, variants, prop):
    """the library ends idle connections (handler calls disconnect()) and http_server::shutdown() reaches the same
    connections again BEFORE their peers have reacted; the peers then close (TLS: answer the close_notify): every
    connection must still be signalled as disconnected and released, and the event loop must run out of work"""
    import re
    import subprocess
    import vlib
    res = []
    n = 0
    for h in variants:
        try:
            binary = binaries.get(h) or vlib.build_harness(h, log)
        except vlib.BuildError as e:
            res.append((False, "net_driver (%s) does not build against the current tree: %s" % (h, str(e)[-300:]), "build " + h, {}))
            continue
        for n_conn in ((1, 4) if tier == "quick" else (1, 2, 4, 16, 40)):
            args = ["twoshut", "n=%d" % n_conn]
            cmdline = "%s %s" % (h, " ".join(args))
            try:
                r = subprocess.run([binary] + args, capture_output=True, text=True, timeout=120)
            except subprocess.TimeoutExpired:
                res.append((False, "net_driver %s hung" % " ".join(args), cmdline, {}))
                continue
            m = re.search(r"^RESULT (.*)$", r.stdout, re.M)
            n += 1
            if not m:
                res.append((False, "abort: net_driver failed (exit status %d): %s" % (r.returncode, (r.stdout + r.stderr)[-300:]), cmdline, {}))
                continue
            kv = dict(x.split("=", 1) for x in m.group(1).split() if "=" in x)
            if kv.get("errors") != "0" or kv.get("handled") != str(n_conn):
                continue        # the scenario did not take place (peer could not connect): nothing to judge
            if kv.get("connected") != kv.get("disconnected"):
                res.append((False, "real socket (%s): %s connections were ended by the library and then again by http_server::shutdown(); "
                            "their peers closed in answer, yet only %s were ever signalled as disconnected: the rest are retained" % (
                                h, kv.get("connected"), kv.get("disconnected")), cmdline, {}))
            elif kv.get("srv_clean_exit") != "1":
                res.append((False, "real socket (%s): the event loop still had outstanding work after a connection was shut down twice "
                            "and its peer closed" % h, cmdline, {}))
            elif kv.get("srv_exceptions") != "0":
                res.append((False, "real socket (%s): an exception escaped into the event loop" % h, cmdline, {}))
    res.append((True, "", "", {"real_socket_double_shutdown_runs": n}))
    return res


def net_rstdisc_checks(tier, binaries, log, variants, prop):
    """the peer RESETS its connection while the request handler is running (the reset is in the server's socket, unread);
    the handler then turns the peer away with disconnect(): the connection must still be signalled as disconnected and
    released (real tcp_adaptor / ssl_tcp_adaptor shutdown on a socket that is no longer connected)"""
    import re
    import subprocess
    import vlib
    res = []
    n = 0
    for h in variants:
        try:
            binary = binaries.get(h) or vlib.build_harness(h, log)
        except vlib.BuildError as e:
            res.append((False, "net_driver (%s) does not build against the current tree: %s" % (h, str(e)[-300:]), "build " + h, {}))
            continue
        for n_conn in ((3,) if tier == "quick" else (1, 3, 10)):
            args = ["rstdisc", "n=%d" % n_conn]
            cmdline = "%s %s" % (h, " ".join(args))
            try:
                r = subprocess.run([binary] + args, capture_output=True, text=True, timeout=180)
            except subprocess.TimeoutExpired:
                res.append((False, "net_driver %s hung" % " ".join(args), cmdline, {}))
                continue
            m = re.search(r"^RESULT (.*)$", r.stdout, re.M)
            n += 1
            if not m:
                res.append((False, "abort: net_driver failed (exit status %d): %s" % (r.returncode, (r.stdout + r.stderr)[-300:]), cmdline, {}))
                continue
            kv = dict(x.split("=", 1) for x in m.group(1).split() if "=" in x)
            if kv.get("errors") != "0" or kv.get("handled") != str(n_conn):
                continue
            if kv.get("connected") != kv.get("disconnected"):
                res.append((False, "real socket (%s): %s connections were reset by their peers while the request handler ran and then "
                            "disconnected by the handler; only %s were ever signalled as disconnected: the rest are retained" % (
                                h, kv.get("connected"), kv.get("disconnected")), cmdline, {}))
            elif kv.get("srv_exceptions") != "0":
                res.append((False, "real socket (%s): an exception escaped into the event loop" % h, cmdline, {}))
    res.append((True, "", "", {"real_socket_reset_then_disconnect_runs": n}))
    return res


def net_lateafter_checks(tier, binaries, log, variants, prop):
    """the server ends a connection after a `Connection: close` request (TLS: close_notify); the peer then sends a further
    request on it before closing: a request that arrives after the library has ended the connection must not reach the
    application, and the connection is signalled as disconnected exactly once"""
    import re
    import subprocess
    import vlib
    res = []
    n = 0
    for h in variants:
        try:
            binary = binaries.get(h) or vlib.build_harness(h, log)
        except vlib.BuildError as e:
            res.append((False, "net_driver (%s) does not build against the current tree: %s" % (h, str(e)[-300:]), "build " + h, {}))
            continue
        for n_conn in ((3,) if tier == "quick" else (1, 3, 10)):
            args = ["lateafter", "n=%d" % n_conn]
            cmdline = "%s %s" % (h, " ".join(args))
            try:
                r = subprocess.run([binary] + args, capture_output=True, text=True, timeout=180)
            except subprocess.TimeoutExpired:
                res.append((False, "net_driver %s hung" % " ".join(args), cmdline, {}))
                continue
            m = re.search(r"^RESULT (.*)$", r.stdout, re.M)
            n += 1
            if not m:
                res.append((False, "abort: net_driver failed (exit status %d): %s" % (r.returncode, (r.stdout + r.stderr)[-300:]), cmdline, {}))
                continue
            kv = dict(x.split("=", 1) for x in m.group(1).split() if "=" in x)
            if kv.get("errors") != "0" or kv.get("handled") != str(n_conn) or kv.get("ended") != str(n_conn):
                continue
            if kv.get("late_handled") != "0":
                res.append((False, "real socket (%s): %s requests sent AFTER the server had ended their connection (response to a "
                            "`Connection: close` request written, close_notify sent) were passed to the application" % (
                                h, kv.get("late_handled")), cmdline, {}))
            elif kv.get("connected") != kv.get("disconnected"):
                res.append((False, "real socket (%s): %s connected but %s disconnected events" % (h, kv.get("connected"), kv.get("disconnected")), cmdline, {}))
            elif kv.get("srv_exceptions") != "0":
                res.append((False, "real socket (%s): an exception escaped into the event loop" % h, cmdline, {}))
    res.append((True, "", "", {"real_socket_late_request_runs": n}))
    return res
