#!/bin/sh
# Build the framework offline: regenerate Generated.lean from /repo, build model + proofs + driver,
# warm the harness cache.
set -e
cd "$(dirname "$0")/.."
python3 tools/extract.py
python3 tools/cxx2lean.py
(cd lean && lake build)
python3 - <<'PY'
import sys, os
sys.path.insert(0, "tools")
import vlib
for h in ("rx_driver", "sim_driver"):
    if os.path.exists(os.path.join("harness", h + ".cpp")):
        vlib.build_harness(h, lambda m: sys.stderr.write(m + "\n"))
PY
