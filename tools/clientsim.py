"""Scenarios for the REAL http_client template (sim_driver `client` mode, FakeAdaptor): requests it writes, responses it
receives in arbitrary fragments, and its teardown.  The model has no client; every expectation here is known by construction
(the generator builds the messages from parts and knows what must come out), so these cases are implementation-only.

Used by C04 (what the client writes is well-formed, correctly framed HTTP/1.1), C07 (responses through the real client's read
loop are delivered once and intact, malformed ones are reported invalid), C05 (arbitrary bytes never abort or hang the
client) and C11 (disconnect / close / destruction of a client at any moment)."""
import re

import gen_http as G
from vlib import Case, hx, unhx

TOK = b"abcdefghijklmnopqrstuvwxyzABCDEFGHIJKLMNOPQRSTUVWXYZ0123456789-_."


def _request(rng):
    """(script lines, expected wire check data)"""
    method = rng.choice([b"GET", b"POST", b"PUT", b"DELETE", b"HEAD", b"OPTIONS"])
    uri = b"/" + rng.bytes(rng.range(0, 12), TOK + b"/?=&%")
    nh = rng.range(0, 2)
    # distinct names (the check looks a header up by name)
    hdrs = [(b"X-%d" % i + rng.bytes(rng.range(1, 6), TOK), rng.bytes(rng.range(0, 10), TOK + b" ;,=").strip(b" ")) for i in range(nh)]
    hs = b"".join(n + b": " + v + b"\r\n" for n, v in hdrs)
    kind = rng.choice(["nobody", "body", "body", "bufs", "chunked", "chunked-emptybody", "body-owncl", "bufs-owncl"])
    lines = []
    if kind in ("chunked", "chunked-emptybody"):
        hs2 = hs + b"Transfer-Encoding: chunked\r\n"
        first = "cl-send m=%s u=%s hs=%s" % (hx(method), hx(uri), hx(hs2))
        if kind == "chunked-emptybody":
            # the application starts its chunked request through a body-carrying overload with an empty body
            first += " b=%s ovl=%s" % (hx(b""), rng.choice(["body", "bufs"]))
        lines.append(first)
        chunks = []
        for _ in range(rng.range(0, 3)):
            d = rng.bytes(rng.choice([1, 2, 9, 16, 17, 255, 256]))
            ext = rng.bytes(rng.range(1, 5), TOK + b"=") if rng.chance(1, 3) else b""
            chunks.append((d, ext))
        last_ext = rng.bytes(rng.range(1, 4), TOK) if rng.chance(1, 4) else b""
        trailers = [(b"T-" + rng.bytes(2, TOK), rng.bytes(rng.range(0, 5), TOK))] if rng.chance(1, 3) else []
        tr = b"".join(n + b": " + v + b"\r\n" for n, v in trailers)
        sends = [lines[0]]
        for d, ext in chunks:
            sends.append("cl-chunk d=%s ext=%s" % (hx(d), hx(ext)))
        sends.append("cl-last ext=%s tr=%s" % (hx(last_ext), hx(tr)))
        return sends, {"method": method, "uri": uri, "hdrs": hdrs, "chunked": True, "chunks": chunks, "last_ext": last_ext,
                       "trailers": trailers}
    body = b"" if kind == "nobody" else rng.bytes(rng.choice([0, 1, 5, 40, 300]))
    if kind.endswith("-owncl"):
        # the application states the (correct) Content-Length itself
        hdrs = hdrs + [(b"Content-Length", b"%d" % len(body))]
        hs = hs + b"Content-Length: %d\r\n" % len(body)
        kind = kind[:-6]
    line = "cl-send m=%s u=%s hs=%s" % (hx(method), hx(uri), hx(hs))
    if kind != "nobody":
        line += " b=%s ovl=%s" % (hx(body), kind)
    return [line], {"method": method, "uri": uri, "hdrs": hdrs, "chunked": False, "body": body}


def parse_request_stream(data):
    """independent grammar for what a client may write: a sequence of requests, each framed by Content-Length or chunked.
    returns (list of dicts, error)"""
    out = []
    pos = 0
    while pos < len(data):
        end = data.find(b"\r\n\r\n", pos)
        if end < 0:
            return out, "request head without terminating empty line at offset %d: %r" % (pos, data[pos:pos + 80])
        head = data[pos:end].split(b"\r\n")
        m = re.match(rb"^([A-Z]+) (\S+) HTTP/(\d)\.(\d)$", head[0])
        if not m:
            return out, "bad request line %r" % head[0]
        hdrs = []
        for l in head[1:]:
            mm = re.match(rb"^([!#$%&'*+\-.^_`|~0-9A-Za-z]+):[ \t]*(.*)$", l)
            if not mm:
                return out, "bad header line %r" % l
            hdrs.append((mm.group(1), mm.group(2)))
        low = [(n.lower(), v) for n, v in hdrs]
        pos = end + 4
        cls = [v for n, v in low if n == b"content-length"]
        tes = [v for n, v in low if n == b"transfer-encoding"]
        req = {"method": m.group(1), "uri": m.group(2), "version": m.group(3) + m.group(4), "hdrs": hdrs}
        if len(cls) > 1:
            return out, "several Content-Length headers"
        if tes and cls:
            return out, "both Content-Length and Transfer-Encoding"
        if tes:
            chunks = []
            while True:
                le = data.find(b"\r\n", pos)
                if le < 0:
                    return out, "unterminated chunk size line"
                mm = re.match(rb"^([0-9a-fA-F]+)(?:;[ \t]*(.*))?$", data[pos:le])
                if not mm:
                    return out, "bad chunk size line %r" % data[pos:le]
                n = int(mm.group(1), 16)
                ext = mm.group(2) or b""
                pos = le + 2
                if n == 0:
                    trailers = []
                    while True:
                        le = data.find(b"\r\n", pos)
                        if le < 0:
                            return out, "unterminated trailer section"
                        if le == pos:
                            pos += 2
                            break
                        mm2 = re.match(rb"^([!#$%&'*+\-.^_`|~0-9A-Za-z]+):[ \t]*(.*)$", data[pos:le])
                        if not mm2:
                            return out, "bad trailer line %r" % data[pos:le]
                        trailers.append((mm2.group(1), mm2.group(2)))
                        pos = le + 2
                    req["chunks"], req["last_ext"], req["trailers"] = chunks, ext, trailers
                    break
                if data[pos + n:pos + n + 2] != b"\r\n":
                    return out, "chunk of %d bytes is not followed by CRLF: %r" % (n, data[pos + n:pos + n + 4])
                chunks.append((data[pos:pos + n], ext))
                pos += n + 2
        else:
            n = int(cls[0]) if cls and re.match(rb"^\d+$", cls[0]) else (None if cls else 0)
            if n is None:
                return out, "bad Content-Length %r" % cls[0]
            if pos + n > len(data):
                return out, "body of %d bytes announced, only %d present" % (n, len(data) - pos)
            req["body"] = data[pos:pos + n]
            pos += n
        out.append(req)
    return out, None


def _resp_expected(resp):
    """the `cl response` / `cl chunk` lines the client must print for a response built by gen_http"""
    out = []
    for l in resp.expected():
        if l.startswith("VALID "):
            f = dict(t.split("=", 1) for t in l.split(" ")[1:])
            out.append("cl response st=%s r=%s v=%s h=%s b=%s chunked=%s" % (f["st"], f["r"], f["v"], f["h"], f["b"], f["chunked"]))
        else:
            out.append("cl chunk " + l.split(" ", 1)[1])
    return out


def generate(tier, rng, n=None):
    cases = []
    n = n or (150 if tier == "quick" else 6000)
    cfg = G.RESP_CFGS["cli"]
    for k in range(n):
        flavour = rng.choice(["tcp", "tcp", "ssl"])
        lines = ["client cont=%s flavour=%s" % (rng.choice("sv"), flavour), "cl-connected"]
        if flavour == "ssl":
            lines.append("hs c0 ok")
        sent = []
        expect_rx = []
        garbage = False
        pending_w = 0
        nx = rng.range(1, 3)
        for x in range(nx):
            sends, want = _request(rng)
            for s in sends:
                # the library refuses a send while a write is in flight (known behaviour, see C03): complete each write first
                lines.append(s)
                lines.append("wdone c0")
            sent.append(want)
            kind = rng.below(10)
            if kind < 7:
                resp = G.rand_response(rng, cfg, small=True)
                if resp is None:
                    continue
                data = resp.render()
                exp = _resp_expected(resp)
                if rng.chance(1, 4):
                    r2 = G.rand_response(rng, cfg, small=True)      # a second response right behind (e.g. 100 Continue + final)
                    if r2 is not None:
                        data += r2.render()
                        exp += _resp_expected(r2)
                mode = rng.choice(["whole", "bytes", "lines", "struct", "random", "random"])
                parts = rng.choice(list(G.partitions(data, rng, mode, k=3)) or [[data]])
                for p in parts:
                    if p:
                        lines.append("read c0 " + hx(p))
                expect_rx += exp
            elif kind < 9:
                # a malformed response: reported invalid, never delivered
                data = rng.choice([b"HTTQ/1.1 200 OK\r\nContent-Length: 0\r\n\r\n", b"HTTP/1.1 2x0 OK\r\n\r\n",
                                   b"HTTP/1.1 200 OK\r\nBad Name: x\r\n\r\n", b"HTTP/1.1 200 OK\r\nContent-Length: 1x\r\n\r\nab",
                                   b"HTTP/1.1 200 OK\r\nTransfer-Encoding: chunked\r\n\r\ng\r\nabc\r\n0\r\n\r\n"])
                for p in rng.choice(list(G.partitions(data, rng, rng.choice(["whole", "bytes", "random"]), k=3))):
                    if p:
                        lines.append("read c0 " + hx(p))
                garbage = "invalid"
                break
            else:
                data = rng.bytes(rng.range(1, 120))
                for p in rng.choice(list(G.partitions(data, rng, rng.choice(["whole", "bytes", "random"]), k=3))):
                    if p:
                        lines.append("read c0 " + hx(p))
                garbage = "noise"
                break
        # teardown at the end (C11): any of the ways a client can end, then late completions
        td = rng.choice(["none", "cl-disconnect", "cl-close", "cl-destroy", "rderr c0 eof", "rderr c0 reset", "werr-pending"])
        if td == "werr-pending":
            s2, _ = _request(rng)
            lines.append(s2[0])
            lines.append(rng.choice(["werr c0 reset", "werr c0 eof", "cl-destroy", "cl-close", "cl-disconnect"]))
        elif td != "none":
            lines.append(td)
        if flavour == "ssl" and td in ("cl-disconnect",):
            lines.append(rng.choice(["shutdone c0 ok", "shutdone c0 ssl_short", "rderr c0 ssl_shutdown"]))
        for _ in range(rng.range(0, 2)):
            lines.append(rng.choice(["late c0 read", "late c0 write", "poll"]))
        lines.append("state")
        cases.append(Case("cli-%d" % k, lines, {"impl_only": True, "sent": sent, "expect_rx": expect_rx, "garbage": garbage,
                                                "teardown": td, "tags": ["client", flavour, td, "garbage=%s" % garbage]}))
    # a client with a reconnection period: it reconnects after a disconnect, and NOT after close() — whether close() is
    # called from outside or from inside the disconnected handler (C11: a closed client leaves no work in the event loop)
    for k in range(6 if tier == "quick" else 60):
        flavour = rng.choice(["tcp", "ssl"])
        inside = rng.chance(1, 2)
        lines = ["client cont=%s flavour=%s period=15%s" % (rng.choice("sv"), flavour, " ondisc=close" if inside else ""), "cl-connected"]
        if flavour == "ssl":
            lines.append("hs c0 ok")
        if rng.chance(1, 2):
            lines += ["cl-send m=474554 u=2f", "wdone c0", "read c0 " + hx(b"HTTP/1.1 200 OK\r\nContent-Length: 0\r\n\r\n")]
        if not inside:
            # first a legitimate reconnect …
            lines += ["rderr c0 %s" % rng.choice(["eof", "reset"]), "wait 60", "cl-connected"]
            if flavour == "ssl":
                lines.append("hs c0 ok")
            lines.append("cl-close")
        else:
            lines.append("rderr c0 %s" % rng.choice(["eof", "reset"]))
        close_at = len(lines) - 1
        lines += ["wait 60", "cl-connected", "poll", "state"]
        cases.append(Case("cli-rc-%d" % k, lines, {"impl_only": True, "sent": [], "expect_rx": None, "garbage": False,
                                                   "teardown": "reconnect", "close_at": close_at, "inside": inside,
                                                   "tags": ["client", flavour, "reconnect-" + ("inside" if inside else "outside")]}))
    # teardown while the reconnection timer has EXPIRED but its handler has not run yet (cancel() then cancels nothing
    # and the handler is invoked with success on a client that no longer exists), or is still pending
    for k in range(6 if tier == "quick" else 40):
        flavour = rng.choice(["tcp", "ssl"])
        lines = ["client cont=%s flavour=%s period=15" % (rng.choice("sv"), flavour), "cl-connected"]
        if flavour == "ssl":
            lines.append("hs c0 ok")
        lines.append("rderr c0 %s" % rng.choice(["eof", "reset"]))
        if rng.chance(1, 2):
            # the application's own timer destroys the client in the same pass of the event loop in which the client's
            # expired reconnection timer has already been queued
            lines += ["cl-kill-timer 1", "sleep 60"]
        else:
            lines.append(rng.choice(["sleep 60", "sleep 60", "sleep 1"]))
            lines.append(rng.choice(["cl-destroy", "cl-destroy", "cl-close"]))
        lines += ["poll", "wait 40", "state"]
        cases.append(Case("cli-tm-%d" % k, lines, {"impl_only": True, "sent": [], "expect_rx": None, "garbage": False,
                                                   "teardown": "timer", "tags": ["client", flavour, "timer-teardown"]}))
    return cases


def judge(case, out):
    """returns {category: message} for the properties this transcript violates"""
    res = {}
    ab = [l for l in out if l.startswith("abort")]
    if ab:
        res["abort"] = "the client aborted or let an exception escape: %s" % ab[0]
        return res
    if not out or out[-1] != "end":
        res["abort"] = "the harness did not finish the script (hang or crash): last lines %s" % out[-3:]
        return res
    if case.meta["teardown"] == "reconnect":
        segs = "\n".join(out).split("\n;\n")
        # segment 0 is the `client` line's output, segment k belongs to script line k
        after = segs[case.meta["close_at"] + 1:]
        before = segs[:case.meta["close_at"] + 1]
        n_before = sum(1 for s_ in before for l in s_.split("\n") if l == "cl connected")
        if not case.meta["inside"] and n_before != 2:
            res["life"] = "a client with a reconnection period did not reconnect after the peer closed (connected %d times)" % n_before
        if any(l == "cl connected" for s_ in after for l in s_.split("\n")):
            res["life"] = "the client reconnected after close() had been called%s" % (
                " from inside its disconnected handler" if case.meta["inside"] else "")
        st = [l for l in out if l.startswith("state ")]
        if st and "pending=1" in st[-1]:
            res["life"] = "work is left in the io_context after the client was closed: %s" % st[-1]
        return res
    if case.meta["teardown"] == "timer":
        return res          # only aborts / hangs are judged (above): a late timer completion must not touch a destroyed client
    # --- what the client wrote (C04)
    wires = b"".join(unhx(l.split()[3]) for l in out if l.startswith("io wire c0 ") and len(l.split()) > 3)
    reqs, err = parse_request_stream(wires)
    if err:
        res["wire"] = "the client wrote bytes that are not well-formed HTTP/1.1: %s\n  stream: %r" % (err, wires[:300])
    else:
        sent = case.meta["sent"]
        # every completely written request corresponds, in order, to what was asked for
        for want, got in zip(sent, reqs):
            if got["method"] != want["method"] or got["uri"] != want["uri"] or got["version"] != b"11":
                res["wire"] = "request line written for %r %r: %r %r HTTP/%r" % (want["method"], want["uri"], got["method"], got["uri"], got["version"])
                break
            low = dict((n.lower(), v) for n, v in got["hdrs"])
            if low.get(b"host") != b"localhost":
                res["wire"] = "Host header missing or wrong in %r" % (got["hdrs"],)
                break
            for n, v in want["hdrs"]:
                if low.get(n.lower()) != v:
                    res["wire"] = "header %r: %r was written as %r" % (n, v, low.get(n.lower()))
            if want["chunked"]:
                if "chunks" not in got:
                    res["wire"] = "a chunked request was not written with chunked framing"
                elif [c[0] for c in got["chunks"]] != [c[0] for c in want["chunks"]] or \
                        [c[1] for c in got["chunks"]] != [c[1] for c in want["chunks"]] or got["last_ext"] != want["last_ext"] or \
                        got["trailers"] != want["trailers"]:
                    res["wire"] = "chunk sequence written %r / %r / %r differs from the one sent %r / %r / %r" % (
                        got["chunks"], got["last_ext"], got["trailers"], want["chunks"], want["last_ext"], want["trailers"])
            elif got.get("body") != want["body"]:
                res["wire"] = "body written %r differs from the body sent %r" % (got.get("body"), want["body"])
    # --- what the client delivered (C07)
    got_rx = [l for l in out if l.startswith(("cl response", "cl chunk"))]
    exp = case.meta["expect_rx"]
    if case.meta["garbage"]:
        if got_rx[:len(exp)] != exp:
            res["rx"] = "responses delivered before the malformed one: expected %s got %s" % (exp, got_rx)
        elif case.meta["garbage"] == "invalid":
            if len(got_rx) > len(exp) and not any("chunked=1" in g for g in got_rx[len(exp):len(exp) + 1]):
                res["rx"] = "a malformed response was delivered as valid: %s" % got_rx[len(exp):]
            elif not any(l == "cl invalid" for l in out):
                res["rx"] = "a malformed response was not reported through the invalid-response handler"
    elif got_rx != exp:
        res["rx"] = "responses delivered by the client differ from the responses sent:\n expected %s\n got      %s" % (exp, got_rx)
    # --- life cycle (C11)
    nconn = sum(1 for l in out if l == "cl connected")
    ndisc = sum(1 for l in out if l == "cl disconnected")
    if nconn > 1 or ndisc > 1:
        res["life"] = "connected signalled %d times, disconnected %d times" % (nconn, ndisc)
    td = case.meta["teardown"]
    if "cl-destroy" in case.lines:
        di = None
        # nothing may be delivered after the client object has been destroyed
        segs = "\n".join(out).split("\n;\n")
        op_index = [i for i, l in enumerate(case.lines) if l == "cl-destroy"][0]
        after = segs[op_index + 1:] if op_index + 1 < len(segs) else []
        if any(l.startswith("cl ") for s in after for l in s.split("\n")):
            res["life"] = "a handler of the client was called after the client was destroyed"
        st = [l for l in out if l.startswith("state ")]
        if st and "adaptors=0" not in st[-1]:
            res["life"] = "the connection of a destroyed client is still alive: %s" % st[-1]
    if td in ("rderr c0 eof", "rderr c0 reset") and nconn == 1 and ndisc != 1:
        res["life"] = "the peer closed the connection and disconnected was signalled %d times" % ndisc
    st = [l for l in out if l.startswith("state ")]
    if st and "pending=1" in st[-1] and "poll" in case.lines[-3:]:
        res["life"] = "work is left in the io_context after the client ended: %s" % st[-1]
    return res


def run(tier, rng, binaries, log, categories, n=None):
    """extra_checks helper: run the client scenarios, report the first failure in one of `categories`"""
    import vlib
    try:
        sim = binaries.get("sim_driver") or vlib.build_harness("sim_driver", log)
    except vlib.BuildError as e:
        return [(False, "sim_driver does not build against the current tree: " + str(e)[-300:], "build sim_driver", {})]
    cases = generate(tier, rng, n)
    impl, _ = vlib.run_parallel(sim, cases, "client")
    bad = None
    stats = {}
    for c in cases:
        out = impl.get(c.id) or []
        j = judge(c, out)
        for t in c.meta["tags"]:
            stats[t] = stats.get(t, 0) + 1
        for cat in categories:
            if cat in j and bad is None:
                bad = (c, j[cat], out)
    res = []
    if bad:
        c, msg, out = bad
        res.append((False, "http_client: " + msg, c.script() + "".join("# " + l + "\n" for l in out[:60]), {}))
    res.append((True, "", "", {"client_scenarios": len(cases), "client_scenario_distribution": stats}))
    return res
