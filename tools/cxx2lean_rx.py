#!/usr/bin/env python3
"""Mode 3 of the source-to-Lean translator: the receivers.

  rx_request::parse, rx_response::parse            -> GenRQ.parse, GenRP.parse
  request_receiver::clear / receive                -> GenRR.clear, GenRR.receive
  response_receiver::clear / receive               -> GenRS.clear, GenRS.receive

These functions thread the input iterator through sub-parsers (already translated: GenRL / GenSL / GenMH / GenCK), use
signed arithmetic on lengths, early returns of an `Rx` value from nested conditionals, a `switch` on the state of the
request line, and accessors of their sub-objects.  Accessors are resolved through the class hierarchy down to data
members (one-line `return <expr>;` bodies are inlined, recursively); the member functions of `message_headers` that
look a header up (`find`, `content_length`, `is_chunked`, `expect_continue`, `close_connection`) are NOT translated:
they are mapped by name to the model functions (`Fields.find`, `MH.contentLength`, …) — that mapping is part of the
trusted base and is exercised by the differential correspondence.

Control flow: an `if` that may return and after which more code follows becomes
    let k := fun (s : S) (it : Bytes) => <the code that follows>;  if c then … k s it … else … k s it
so the output stays linear in the size of the function.  Everything not understood raises Unsupported (fail closed).
"""
import os
import re

import cxx2lean as X
from cxx2lean import Unsupported, P, lex, function_body, ctor_name


def may_exit(st):
    """can st leave the function (a `break` inside a switch only leaves the switch)"""
    k = st[0]
    if k == "return":
        return True
    if k == "while":
        return True
    if k == "block":
        return any(may_exit(s) for s in st[1])
    if k == "if":
        return may_exit(st[2]) or (st[3] is not None and may_exit(st[3]))
    if k == "switch":
        return any(may_exit(b) for _, body in st[2] for b in body)
    return False

RX_CTORS = {"INVALID": "invalid", "EXPECT_CONTINUE": "expectContinue", "INCOMPLETE": "incomplete", "VALID": "valid",
            "CHUNK": "chunk"}


def by_cls(name):
    for c in X.CLASSES:
        if c["cls"] == name:
            return c
    raise KeyError(name)


def mk_specs():
    sp = {}
    for name in ("request_line", "response_line", "field_line", "chunk_header"):
        c = dict(by_cls(name))
        c.setdefault("subobjects", {})
        c.setdefault("methods", {})
        sp[name] = c
    mh = dict(X.SPEC_MH)
    mh["subobjects"] = {"field_": ("field", "field_line")}
    # member functions mapped by name to model functions (not translated): (template over the object's prefix and the
    # arguments, result type, argument types)
    mh["methods"] = {
        "find": ("(Fields.find %s.fields %s)", "bytes", ["bytes"]),
        "content_length": ("(MH.contentLength %s)", "int", []),
        "is_chunked": ("(MH.isChunked %s)", "bool", []),
        "expect_continue": ("(MH.expectContinue %s)", "bool", []),
        "close_connection": ("(MH.closeConnection %s)", "bool", []),
    }
    sp["message_headers"] = mh
    ck = dict(X.SPEC_CK)
    ck["subobjects"] = {"ChunkHeader::": ("hdr", "chunk_header"), "trailers_": ("trailers", "message_headers")}
    ck["methods"] = {}
    sp["rx_chunk"] = ck
    sp["rx_request"] = {
        "cls": "rx_request", "file": "http/request.hpp", "struct": "RQ", "ns": "GenRQ", "enum": "Request",
        "members": {"valid_": ("valid", "bool")}, "consts": {},
        "subobjects": {"request_ln::": ("line", "request_line"), "headers_": ("headers", "message_headers")},
        "methods": {}, "parsers": {"request_ln::": "GenRL", "headers_": "GenMH"},
    }
    sp["rx_response"] = {
        "cls": "rx_response", "file": "http/response.hpp", "struct": "RP", "ns": "GenRP", "enum": "Response",
        "members": {"valid_": ("valid", "bool")}, "consts": {},
        "subobjects": {"response_ln::": ("line", "response_line"), "headers_": ("headers", "message_headers")},
        "methods": {}, "parsers": {"response_ln::": "GenSL", "headers_": "GenMH"},
    }
    sp["request_receiver"] = {
        "cls": "request_receiver", "file": "http/request.hpp", "struct": "RR", "ns": "GenRR", "enum": "Request",
        "members": {"body_": ("body", "bytes"), "response_code_": ("code", "nat"), "continue_sent_": ("continueSent", "bool"),
                    "is_head_": ("isHead", "bool")},
        "consts": {"max_content_length_": ("cfg.maxContent", "nat"), "translate_head_": ("cfg.translateHead", "bool"),
                   "concatenate_chunks_": ("cfg.concatChunks", "bool")},
        "subobjects": {"request_": ("request", "rx_request"), "chunk_": ("chunk", "rx_chunk")},
        "methods": {}, "parsers": {"request_": "GenRQ", "chunk_": "GenCK"},
    }
    sp["response_receiver"] = {
        "cls": "response_receiver", "file": "http/response.hpp", "struct": "RS", "ns": "GenRS", "enum": "Response",
        "members": {"body_": ("body", "bytes")},
        "consts": {"max_body_size_": ("cfg.maxContent", "nat")},
        "subobjects": {"response_": ("response", "rx_response"), "chunk_": ("chunk", "rx_chunk")},
        "methods": {}, "parsers": {"response_": "GenRP", "chunk_": "GenCK"},
    }
    return sp


FILES = {"request_line": "http/request.hpp", "response_line": "http/response.hpp", "field_line": "http/headers.hpp",
         "chunk_header": "http/chunk.hpp", "message_headers": "http/headers.hpp", "rx_chunk": "http/chunk.hpp",
         "rx_request": "http/request.hpp", "rx_response": "http/response.hpp", "request_receiver": "http/request.hpp",
         "response_receiver": "http/response.hpp"}

_texts = {}


def text_of(rel):
    if rel not in _texts:
        with open(os.path.join(X.INC, rel), encoding="latin-1") as f:
            _texts[rel] = f.read()
    return _texts[rel]


def class_body(cls):
    """the brace-balanced text of `class <cls> ... { ... }`"""
    text = text_of(FILES[cls])
    m = re.search(r"\bclass\s+%s\b[^;{]*\{" % cls, text)
    if not m:
        raise Unsupported("class %s not found" % cls)
    i = m.end() - 1
    depth = 0
    j = i
    while j < len(text):
        if text.startswith("//", j):
            j = text.index("\n", j)
            continue
        ch = text[j]
        if ch == "'":
            mm = re.match(r"'(?:\\.|[^'\\])'", text[j:])
            if mm:
                j += mm.end()
                continue
        if ch == "{":
            depth += 1
        elif ch == "}":
            depth -= 1
            if depth == 0:
                return text[i:j + 1]
        j += 1
    raise Unsupported("unbalanced braces in class " + cls)


def strip_comments(t):
    return re.sub(r"//[^\n]*", "", t)


def accessor_in(cls, name):
    """expression of `T name() const [noexcept] { return <expr>; }` declared in class cls itself, or None"""
    body = strip_comments(class_body(cls))
    m = re.search(r"[\w:&<>\s]\b%s\s*\(\s*\)\s*const\s*(?:noexcept)?\s*\{\s*return\s+([^;{}]*);\s*\}" % re.escape(name), body)
    if not m:
        return None
    p = P(lex(m.group(1)))
    e = p.expr()
    if p.peek()[0] != "eof":
        raise Unsupported("accessor %s::%s(): trailing tokens" % (cls, name))
    return e


def setter_in(cls, name):
    """(member, parameter) of `void name(T param) { member_ = param; }` declared in class cls, or None"""
    body = strip_comments(class_body(cls))
    m = re.search(r"\bvoid\s+%s\s*\(\s*[\w:]+\s+(\w+)\s*\)\s*(?:noexcept)?\s*\{\s*(\w+)\s*=\s*(\w+)\s*;\s*\}" % re.escape(name), body)
    if not m or m.group(1) != m.group(3):
        return None
    return m.group(2)


def string_constant(qual):
    """bytes of `constexpr char NAME[] {"..."}` for NS::NAME with NS in (request_method, header_field)"""
    ns, name = qual.rsplit("::", 1)
    rel = {"request_method": "http/request_method.hpp", "header_field": "http/header_field.hpp"}.get(ns)
    if rel is None:
        return None
    m = re.search(r"constexpr\s+char\s+%s\s*\[\s*\]\s*\{\s*\"([^\"\\]*)\"\s*\}" % re.escape(name), text_of(rel))
    if not m:
        return None
    return "([%s] : Bytes)" % ", ".join(str(b) for b in m.group(1).encode("latin-1"))


def status_code(qual):
    if not qual.startswith("response_status::code::"):
        return None
    name = qual.rsplit("::", 1)[1]
    m = re.search(r"\b%s\s*=\s*(\d+)" % re.escape(name), strip_comments(text_of("http/response_status.hpp")))
    if not m:
        raise Unsupported("status code " + qual)
    return m.group(1)


class Gen3:
    """statements and expressions of a member function of `top` over (state `s`, remaining input `it`)"""

    def __init__(self, specs, top, result):
        self.specs = specs
        self.top = top
        self.result = result      # "bool" or "rx"
        self.ilocals = {}         # signed locals
        self.blocals = {}         # bool locals
        self.itlocals = {}        # iterator locals -> offset (Nat term)
        self.nk = 0
        self.defs = []            # join points, as definitions of their own (emitted before the function)
        self.fname = "receive" if result == "rx" else "parse"
        self.S = specs[top]["struct"]

    # ---------------------------------------------------------------- objects
    def obj_method(self, cls, prefix, meth, args):
        """value of calling meth(args) on the object of class cls stored at prefix"""
        spec = self.specs[cls]
        if meth in spec.get("methods", {}):
            tmpl, rty, atys = spec["methods"][meth]
            if len(args) != len(atys):
                raise Unsupported("arity of %s::%s" % (cls, meth))
            texts = []
            for a, aty in zip(args, atys):
                p, t, ty = self.ex(a, (cls, prefix))
                if p or ty != aty:
                    raise Unsupported("argument of %s::%s" % (cls, meth))
                texts.append(t)
            return [], tmpl % tuple([prefix] + texts), rty
        if args:
            raise Unsupported("call %s::%s with arguments" % (cls, meth))
        e = accessor_in(cls, meth)
        if e is not None:
            return self.ex(e, (cls, prefix))
        # inherited: look in the base classes
        for key, (field, bcls) in spec["subobjects"].items():
            if key.endswith("::"):
                try:
                    return self.obj_method(bcls, prefix + "." + field, meth, args)
                except Unsupported:
                    pass
        raise Unsupported("%s::%s() is not a one-line accessor" % (cls, meth))

    def resolve_obj(self, e, ctx):
        """(cls, prefix) when e denotes a sub-object in ctx, else None"""
        cls, prefix = ctx
        spec = self.specs[cls]
        if e[0] == "id" and e[1] in spec["subobjects"]:
            field, scls = spec["subobjects"][e[1]]
            return scls, prefix + "." + field
        if e[0] == "call" and not e[2]:
            # an accessor that returns a sub-object: `headers()` -> headers_
            f = e[1]
            if f[0] == "id" and "::" not in f[1]:
                a = accessor_in(cls, f[1])
                if a is not None and a[0] == "id" and a[1] in spec["subobjects"]:
                    return self.resolve_obj(a, ctx)
            if f[0] == "member":
                o = self.resolve_obj(f[1], ctx)
                if o:
                    a = accessor_in(o[0], f[2])
                    if a is not None and a[0] == "id" and a[1] in self.specs[o[0]]["subobjects"]:
                        return self.resolve_obj(a, o)
        return None

    # ---------------------------------------------------------------- expressions -> (prelude, text, type)
    def ex(self, e, ctx=None):
        ctx = ctx or (self.top, "s")
        cls, prefix = ctx
        spec = self.specs[cls]
        k = e[0]
        if k == "char":
            return [], str(e[1]), "byte"
        if k == "num":
            return [], str(e[1]), "nat"
        if k == "bool":
            return [], ("true" if e[1] else "false"), "bool"
        if k == "id":
            v = e[1]
            if ctx == (self.top, "s"):
                if v in self.ilocals:
                    return [], v, "int"
                if v in self.blocals:
                    return [], v, "bool"
            if v in spec["members"]:
                f, ty = spec["members"][v]
                return [], "%s.%s" % (prefix, f), ty
            if v in spec["consts"]:
                t, ty = spec["consts"][v]
                return [], t, ty
            sc = string_constant(v) if "::" in v else None
            if sc:
                return [], sc, "bytes"
            m = re.match(r"(?:\w+::)*(\w+)::([A-Z_0-9]+)$", v)
            if m and m.group(1) in ("Request", "Response", "Header", "Chunk"):
                return [], "." + ctor_name(m.group(2)), "enum"
            raise Unsupported("unknown identifier %s in %s" % (v, cls))
        if k == "not":
            p, t, ty = self.ex(e[1], ctx)
            return p, "!" + self.as_bool(t, ty), "bool"
        if k in ("and", "or"):
            p1, t1, ty1 = self.ex(e[1], ctx)
            p2, t2, ty2 = self.ex(e[2], ctx)
            if p2:
                raise Unsupported("side effect on the right of a short-circuit operator")
            return p1, "(%s %s %s)" % (self.as_bool(t1, ty1), "&&" if k == "and" else "||", self.as_bool(t2, ty2)), "bool"
        if k == "toint":
            p, t, ty = self.ex(e[1], ctx)
            if p or ty != "nat":
                raise Unsupported("cast of a %s to a signed number" % ty)
            return [], "(%s : Int)" % t, "int"
        if k == "tonat":
            p, t, ty = self.ex(e[1], ctx)
            if p or ty != "int":
                raise Unsupported("cast of a %s to size_t" % ty)
            # a negative value would wrap; the code only casts a length it has already tested to be >= 0
            return [], "%s.toNat" % t, "nat"
        if k == "sub":
            p1, t1, ty1 = self.ex(e[1], ctx)
            p2, t2, ty2 = self.ex(e[2], ctx)
            if p1 or p2 or ty1 != "int" or ty2 != "int":
                raise Unsupported("subtraction of unsigned numbers (wraps) or with side effects")
            return [], "(%s - %s)" % (t1, t2), "int"
        if k == "add":
            p1, t1, ty1 = self.ex(e[1], ctx)
            p2, t2, ty2 = self.ex(e[2], ctx)
            if p1 or p2 or ty1 != "nat" or ty2 != "nat":
                raise Unsupported("addition of non-numbers or with side effects")
            return [], "(%s + %s)" % (t1, t2), "nat"
        if k == "cmp":
            op = e[1]
            its = (("id", "iter"), ("id", "end"))
            if e[2] in its and e[3] in its and e[2] != e[3]:
                if op == "!=" or (op == ">" and e[2] == ("id", "end")) or (op == "<" and e[2] == ("id", "iter")):
                    return [], "(!it.isEmpty)", "bool"
                if op == "==":
                    return [], "it.isEmpty", "bool"
                raise Unsupported("iterator comparison " + op)
            p1, t1, ty1 = self.ex(e[2], ctx)
            p2, t2, ty2 = self.ex(e[3], ctx)
            if p2:
                raise Unsupported("side effect on the right of a comparison")
            if "int" in (ty1, ty2):
                if p1:
                    raise Unsupported("side effect in a signed comparison")
                if ty1 == "nat" and e[2][0] == "num":
                    t1, ty1 = "(%s : Int)" % t1, "int"
                if ty2 == "nat" and e[3][0] == "num":
                    t2, ty2 = "(%s : Int)" % t2, "int"
                if ty1 != "int" or ty2 != "int":
                    raise Unsupported("mixed signed/unsigned comparison")
                if op in ("==", "!="):
                    return [], "(%s %s %s)" % (t1, op, t2), "bool"
                return [], "(%s %s %s)" % (t1, op, t2), "prop"
            if op in ("==", "!="):
                if e[2][0] in ("char", "num") or (e[2][0] == "id" and "::" in e[2][1]):
                    t1, t2, ty1, ty2 = t2, t1, ty2, ty1
                if ty1 != ty2:
                    raise Unsupported("comparison of different types: %s %s" % (ty1, ty2))
                return p1, "(%s %s %s)" % (t1, op, t2), "bool"
            if ty1 == "byte" and ty2 == "byte":
                # characters compared as unsigned values (the members concerned hold digits or NUL)
                n1 = t1 if e[2][0] == "char" else t1 + ".toNat"
                n2 = t2 if e[3][0] == "char" else t2 + ".toNat"
                return p1, "(%s %s %s)" % (n1, op, n2), "prop"
            if ty1 != "nat" or ty2 != "nat":
                raise Unsupported("ordering comparison on non-numbers")
            return p1, "(%s %s %s)" % (t1, op, t2), "prop"
        if k == "call":
            f = e[1]
            if f == ("id", "std::distance") and e[2] == [("id", "iter"), ("id", "end")]:
                return [], "(it.length : Int)", "int"
            if f[0] == "id" and "::" in f[1]:
                base, meth = f[1].rsplit("::", 1)
                if base + "::" in spec["subobjects"]:
                    field, bcls = spec["subobjects"][base + "::"]
                    if meth == "parse":
                        return self.parse_call(base + "::", e[2], ctx)
                    return self.obj_method(bcls, prefix + "." + field, meth, e[2])
            if f[0] == "id" and f[1] in X.FUNCS:
                if len(e[2]) != 1:
                    raise Unsupported("arity of " + f[1])
                p, t, ty = self.ex(e[2][0], ctx)
                return p, "(%s %s)" % (X.FUNCS[f[1]], t), X.FUNC_TYPES[X.FUNCS[f[1]]]
            if f[0] == "id" and "::" not in f[1]:
                return self.obj_method(cls, prefix, f[1], e[2])
            if f[0] == "member":
                o = self.resolve_obj(f[1], ctx)
                if o:
                    if f[2] == "parse":
                        if f[1][0] != "id":
                            raise Unsupported("parse on a nested object")
                        return self.parse_call(f[1][1], e[2], ctx)
                    return self.obj_method(o[0], o[1], f[2], e[2])
                p, t, ty = self.ex(f[1], ctx)
                if ty == "bytes" and not e[2]:
                    if f[2] == "empty":
                        return p, "%s.isEmpty" % t, "bool"
                    if f[2] == "size":
                        return p, "%s.length" % t, "nat"
                raise Unsupported("method %s on a %s" % (f[2], ty))
        raise Unsupported("expression form %r" % (e,))

    def parse_call(self, key, args, ctx):
        if ctx != (self.top, "s"):
            raise Unsupported("sub-parser called from an accessor")
        if args != [("id", "iter"), ("id", "end")]:
            raise Unsupported("sub-parser called with something other than (iter, end)")
        spec = self.specs[self.top]
        field = spec["subobjects"][key][0]
        ns = spec["parsers"][key]
        return (["let r := %s.parse cfg s.%s it" % (ns, field), "let s := { s with %s := r.1 }" % field, "let it := r.2.1"],
                "r.2.2", "bool")

    def as_bool(self, t, ty):
        if ty == "bool":
            return t
        if ty == "prop":
            return "decide %s" % t
        raise Unsupported("a %s used as a condition" % ty)

    def cond(self, t, ty):
        if ty in ("bool", "prop"):
            return t
        raise Unsupported("a %s used as a condition" % ty)

    def has_effect(self, e):
        if isinstance(e, tuple):
            if e[0] in ("preinc", "assign"):
                return True
            if e[0] == "call":
                f = e[1]
                if (f[0] == "member" and f[2] == "parse") or (f[0] == "id" and f[1].endswith("::parse")):
                    return True
            return any(self.has_effect(x) for x in e[1:] if isinstance(x, (tuple, list)))
        if isinstance(e, list):
            return any(self.has_effect(x) for x in e)
        return False

    @staticmethod
    def seq(lines, tail):
        return "; ".join(lines + [tail]) if lines else tail

    # ---------------------------------------------------------------- statements without exits
    def set_path(self, path, value):
        """`let s := …` that sets the field at a dotted path below s"""
        parts = path.split(".")
        assert parts[0] == "s"
        inner = value
        for i in range(len(parts) - 1, 0, -1):
            owner = ".".join(parts[:i])
            inner = "{ %s with %s := %s }" % (owner, parts[i], inner)
        return "let s := " + inner

    def effect(self, st):
        k = st[0]
        spec = self.specs[self.top]
        if k == "block":
            out = []
            for x in st[1]:
                out += self.effect(x)
            return out
        if k == "ldecl":
            ty, name, e = st[1], st[2], st[3]
            if ty == "std::ptrdiff_t":
                p, t, ety = self.ex(e)
                if ety != "int":
                    raise Unsupported("signed local initialised with a %s" % ety)
                self.ilocals[name] = name
                return p + ["let %s : Int := %s" % (name, t)]
            if ty == "bool":
                p, t, ety = self.ex(e)
                self.blocals[name] = name
                return p + ["let %s : Bool := %s" % (name, self.as_bool(t, ety))]
            if ty == "ForwardIterator":
                if e[0] != "add" or e[1] != ("id", "iter"):
                    raise Unsupported("iterator local that is not `iter + n`")
                if e[2][0] != "id" or e[2][1] not in self.ilocals:
                    raise Unsupported("iterator offset")
                self.itlocals[name] = "%s.toNat" % e[2][1]
                return []
            raise Unsupported("local of type " + ty)
        if k == "if":
            # `if (b) local = <nat member>;` on a signed local
            if st[3] is None and not may_exit(st[2]):
                body = st[2][1] if st[2][0] == "block" else [st[2]]
                if len(body) == 1 and body[0][0] == "expr" and body[0][1][0] == "assign" and body[0][1][1] == "=" and \
                        body[0][1][2][0] == "id" and body[0][1][2][1] in self.ilocals:
                    name = body[0][1][2][1]
                    pc, tc, tyc = self.ex(st[1])
                    p, t, ty = self.ex(body[0][1][3])
                    if pc or p:
                        raise Unsupported("side effect in a conditional assignment")
                    if ty == "nat":
                        t = "(%s : Int)" % t        # size_t -> ptrdiff_t: values below 2^63 only (a configured limit)
                    elif ty != "int":
                        raise Unsupported("assignment of a %s to a signed local" % ty)
                    return ["let %s : Int := if %s then %s else %s" % (name, self.cond(tc, tyc), t, name)]
            p, t, ty = self.ex(st[1])
            saved = (dict(self.ilocals), dict(self.blocals), dict(self.itlocals))
            th = self.effect(st[2])
            self.ilocals, self.blocals, self.itlocals = (dict(x) for x in saved)
            el = self.effect(st[3]) if st[3] is not None else []
            self.ilocals, self.blocals, self.itlocals = saved
            return p + ["let sit := if %s then (%s) else (%s)" % (self.cond(t, ty), self.seq(th, "(s, it)"), self.seq(el, "(s, it)")),
                        "let s := sit.1", "let it := sit.2"]
        if k == "switch":
            # every case: assignments then `break` (no fall-through, no other exit)
            p, t, ty = self.ex(st[1])
            if p or ty != "enum":
                raise Unsupported("switch on a %s" % ty)
            arms = []
            default = None
            for ci, (labels, body) in enumerate(st[2]):
                if body and body[-1] == ("break",):
                    body = body[:-1]
                elif ci != len(st[2]) - 1:
                    raise Unsupported("switch case without break")
                if any(may_exit(b) for b in body):
                    raise Unsupported("exit inside a switch case")
                lines = []
                for b in body:
                    lines += self.effect(b)
                for lab in labels:
                    if lab is None:
                        default = lines
                    else:
                        m = re.match(r"(?:\w+::)*(\w+)$", lab)
                        arms.append((ctor_name(m.group(1)), lines))
            if default is None:
                default = []
            txt = self.seq(default, "s")
            for cn, lines in reversed(arms):
                txt = "if (%s == .%s) then (%s) else (%s)" % (t, cn, self.seq(lines, "s"), txt)
            return ["let s := " + txt]
        if k == "expr":
            e = st[1]
            if e[0] == "assign" and e[1] == "=":
                lhs, rhs = e[2], e[3]
                if lhs == ("id", "iter"):
                    if rhs == ("id", "end"):
                        return ["let it := ([] : Bytes)"]
                    if rhs[0] == "id" and rhs[1] in self.itlocals:
                        return ["let it := it.drop %s" % self.itlocals[rhs[1]]]
                    raise Unsupported("assignment to iter")
                if lhs[0] == "id" and lhs[1] in spec["members"]:
                    f, fty = spec["members"][lhs[1]]
                    sc = status_code(rhs[1]) if rhs[0] == "id" else None
                    if sc is not None:
                        p, t, ty = [], sc, "nat"
                    else:
                        p, t, ty = self.ex(rhs)
                    if fty == "bool" and ty == "prop":
                        t, ty = "decide " + t, "bool"
                    if fty != ty:
                        raise Unsupported("assignment of %s to %s member %s" % (ty, fty, lhs[1]))
                    return p + ["let s := { s with %s := %s }" % (f, t)]
                raise Unsupported("assignment to %r" % (lhs,))
            if e[0] == "call":
                f = e[1]
                # clear() of this class
                if f == ("id", "clear") and not e[2]:
                    return ["let s := %s.clear s" % spec["ns"]]
                if f[0] == "member" and f[1][0] == "id":
                    tgt, meth = f[1][1], f[2]
                    if tgt in spec["subobjects"] and meth == "clear" and not e[2]:
                        return ["let s := { s with %s := {} }" % spec["subobjects"][tgt][0]]
                    if tgt in spec["members"] and meth == "clear" and not e[2]:
                        fld, fty = spec["members"][tgt]
                        if fty != "bytes":
                            raise Unsupported("clear of a %s" % fty)
                        return ["let s := { s with %s := [] }" % fld]
                    if tgt in spec["members"] and meth == "insert" and len(e[2]) == 3:
                        fld, fty = spec["members"][tgt]
                        a0, a1, a2 = e[2]
                        if fty != "bytes" or a0 != ("call", ("member", f[1], "end"), []):
                            raise Unsupported("insert form")
                        if a1 == ("id", "iter"):
                            if a2 == ("id", "end"):
                                return ["let s := { s with %s := s.%s ++ it }" % (fld, fld)]
                            if a2[0] == "id" and a2[1] in self.itlocals:
                                return ["let s := { s with %s := s.%s ++ it.take %s }" % (fld, fld, self.itlocals[a2[1]])]
                            raise Unsupported("insert range")
                        # c.insert(c.end(), X.begin(), X.end()) with X a byte container
                        if a1[0] == "call" and a1[1][0] == "member" and a1[1][2] == "begin" and \
                                a2 == ("call", ("member", a1[1][1], "end"), []):
                            p, t, ty = self.ex(a1[1][1])
                            if p or ty != "bytes":
                                raise Unsupported("insert source")
                            return ["let s := { s with %s := s.%s ++ %s }" % (fld, fld, t)]
                        raise Unsupported("insert range")
                    if tgt in spec["subobjects"] and len(e[2]) == 1:
                        # a one-line setter of the sub-object (or of one of its bases)
                        field, scls = spec["subobjects"][tgt]
                        owner = self.find_setter(scls, "s." + field, meth)
                        if owner:
                            path, mty = owner
                            p, t, ty = self.ex(e[2][0])
                            if p or ty != mty:
                                raise Unsupported("setter argument")
                            return [self.set_path(path, t)]
                if f[0] == "id" and "::" in f[1] and not e[2]:
                    base, meth = f[1].rsplit("::", 1)
                    if base + "::" in spec["subobjects"] and meth == "clear":
                        return ["let s := { s with %s := {} }" % spec["subobjects"][base + "::"][0]]
            raise Unsupported("expression statement %r" % (e,))
        raise Unsupported("statement %r cannot be used here" % (k,))

    def find_setter(self, cls, prefix, meth):
        spec = self.specs[cls]
        m = setter_in(cls, meth)
        if m and m in spec["members"]:
            f, ty = spec["members"][m]
            return prefix + "." + f, ty
        for key, (field, bcls) in spec["subobjects"].items():
            if key.endswith("::"):
                r = self.find_setter(bcls, prefix + "." + field, meth)
                if r:
                    return r
        return None

    # ---------------------------------------------------------------- statements with exits
    def ret(self, e):
        if self.result == "rx":
            if e[0] == "id" and e[1].startswith("Rx::") and e[1][4:] in RX_CTORS:
                return "(s, it, Rx.%s)" % RX_CTORS[e[1][4:]]
            raise Unsupported("return of something other than an Rx constant")
        p, t, ty = self.ex(e)
        return self.seq(p, "(s, it, %s)" % self.as_bool(t, ty))

    def falls_through(self, st):
        """can control reach the statement after st?"""
        k = st[0]
        if k == "return":
            return False
        if k == "block":
            return all(self.falls_through(x) for x in st[1])
        if k == "if":
            return self.falls_through(st[2]) or st[3] is None or self.falls_through(st[3])
        return True

    def stmts(self, stmts, k_end):
        if not stmts:
            if k_end is None:
                raise Unsupported("control can fall off the end of the function")
            return k_end
        st, rest = stmts[0], stmts[1:]
        k = st[0]
        if k == "while":
            raise Unsupported("loop")
        if k == "ldecl" or not may_exit(st):
            lines = self.effect(st)
            tail = self.stmts(rest, k_end)
            return self.seq(lines, tail) if lines else tail
        if k == "return":
            return self.ret(st[1])
        if k == "block":
            return self.stmts(st[1] + rest, k_end)
        if k == "if":
            c = st[1]
            if c[0] == "and" and self.has_effect(c[2]):
                # `if (A && B)` with a side effect in B: B is evaluated only when A holds
                inner = ("if", c[2], st[2], st[3])
                return self.stmts([("if", c[1], inner, st[3])] + rest, k_end)
            saved = (dict(self.ilocals), dict(self.blocals), dict(self.itlocals))
            pre = []
            cont = k_end
            th_falls = self.falls_through(st[2])
            el_falls = st[3] is None or self.falls_through(st[3])
            if rest and th_falls and el_falls:
                # join point: both branches can continue with the code that follows; it becomes a definition of its
                # own, with the locals in scope as parameters
                self.nk += 1
                kn = "%s.%s_k%d" % (self.specs[self.top]["ns"], self.fname, self.nk)
                params = [(n, "Int") for n in self.ilocals] + [(n, "Bool") for n in self.blocals]
                body = self.stmts(rest, k_end)
                self.ilocals, self.blocals, self.itlocals = (dict(x) for x in saved)
                self.defs.append("def %s (cfg : Cfg) %s(s : %s) (it : Bytes) : %s × Bytes × %s :=\n  %s\n" % (
                    kn, "".join("(%s : %s) " % pr for pr in params), self.S, self.S,
                    "Rx" if self.result == "rx" else "Bool", body))
                cont = "%s cfg %ss it" % (kn, "".join(n + " " for n, _ in params))
                rest_for = []
            else:
                rest_for = rest
            p, t, ty = self.ex(c)
            th = self.stmts([st[2]] + (rest_for if th_falls else []), cont)
            self.ilocals, self.blocals, self.itlocals = (dict(x) for x in saved)
            el = self.stmts(([st[3]] if st[3] is not None else []) + (rest_for if el_falls else []), cont)
            self.ilocals, self.blocals, self.itlocals = saved
            return self.seq(pre + p, "(if %s then %s else %s)" % (self.cond(t, ty), th, el))
        raise Unsupported("statement %r" % (k,))


SIG_PARSE = r"\bbool\s+parse\s*\(\s*ForwardIterator\s*&\s*iter\s*,\s*ForwardIterator\s+end\s*\)"
SIG_RECEIVE = r"\bRx\s+receive\s*\(\s*ForwardIterator\s*&\s*iter\s*,\s*ForwardIterator\s+end\s*\)"
SIG_CLEAR = r"\bvoid\s+clear\s*\(\s*\)\s*(?:noexcept)?"


def body_of(cls, sig):
    body = function_body(text_of(FILES[cls]), cls, sig)
    p = P(lex(body))
    st = p.stmt()
    if p.peek()[0] != "eof" or st[0] != "block":
        raise Unsupported("trailing tokens after the body of a function of " + cls)
    return st[1]


HEADER = ("/-\n  GENERATED by tools/cxx2lean.py (mode 3, tools/cxx2lean_rx.py) from %s in include/via/%s of /repo's CURRENT tree.\n"
          "  Do not edit.  ViaProofs/Trans/%s.lean proves the hand-written model equal to this translation.\n-/\n"
          "set_option linter.unusedVariables false\nnamespace Via\n")


def translate_message(cls):
    """rx_request::parse / rx_response::parse"""
    specs = mk_specs()
    spec = specs[cls]
    g = Gen3(specs, cls, "bool")
    term = g.stmts(body_of(cls, SIG_PARSE), None)
    S, ns = spec["struct"], spec["ns"]
    imp = "import ViaGen.RL\nimport ViaGen.MH\nimport ViaModel.ReqRx\n" if cls == "rx_request" else \
        "import ViaGen.SL\nimport ViaGen.MH\nimport ViaModel.RespRx\n"
    return imp + HEADER % (cls + "::parse", spec["file"], S) + \
        "\n" + "\n".join(g.defs) + \
        "\ndef %s.parse (cfg : Cfg) (s : %s) (it : Bytes) : %s × Bytes × Bool :=\n  %s\n\nend Via\n" % (ns, S, S, term)


def translate_receiver(cls):
    """<receiver>::clear and <receiver>::receive"""
    specs = mk_specs()
    spec = specs[cls]
    S, ns = spec["struct"], spec["ns"]
    gc = Gen3(specs, cls, "bool")
    clear_stmts = body_of(cls, SIG_CLEAR)
    if any(may_exit(x) for x in clear_stmts):
        raise Unsupported("exit in clear()")
    lines = []
    for x in clear_stmts:
        lines += gc.effect(x)
    clear = gc.seq(lines, "s")
    g = Gen3(specs, cls, "rx")
    term = g.stmts(body_of(cls, SIG_RECEIVE), None)
    imp = "import ViaGen.RQ\nimport ViaGen.CK\n" if cls == "request_receiver" else "import ViaGen.RP\nimport ViaGen.CK\n"
    return imp + HEADER % (cls + "::clear / receive", spec["file"], S) + \
        "\ndef %s.clear (s : %s) : %s :=\n  %s\n\n" % (ns, S, S, clear) + "\n".join(g.defs) + \
        "\ndef %s.receive (cfg : Cfg) (s : %s) (it : Bytes) : %s × Bytes × Rx :=\n  %s\n\nend Via\n" % (ns, S, S, term)


# ------------------------------------------------------------------------------------------------
# the header look-ups of message_headers (const member functions over the field map)

def local_string_constant(name):
    """bytes of `constexpr char NAME[] {"..."}` in headers.hpp"""
    m = re.search(r"constexpr\s+char\s+%s\s*\[\s*\]\s*\{\s*\"([^\"\\]*)\"\s*\}" % re.escape(name), text_of("http/headers.hpp"))
    if not m:
        return None
    return "([%s] : Bytes)" % ", ".join(str(b) for b in m.group(1).encode("latin-1"))


class GenLookup:
    """a const member function of message_headers that looks a field up and judges its value"""

    def __init__(self):
        self.locals = {}      # name -> type

    def ex(self, e):
        k = e[0]
        if k == "num":
            return str(e[1]), "nat"
        if k == "bool":
            return ("true" if e[1] else "false"), "bool"
        if k == "id":
            v = e[1]
            if v in self.locals:
                return v, self.locals[v]
            if v == "std::string::npos":
                return "npos", "npos"
            sc = string_constant(v) if "::" in v else local_string_constant(v)
            if sc:
                return sc, "bytes"
            raise Unsupported("identifier %s in a header look-up" % v)
        if k == "not":
            t, ty = self.ex(e[1])
            if ty != "bool":
                raise Unsupported("! on a %s" % ty)
            return "!" + t, "bool"
        if k == "call":
            f = e[1]
            if f == ("id", "find") and len(e[2]) == 1:
                t, ty = self.ex(e[2][0])
                if ty != "bytes":
                    raise Unsupported("find of a %s" % ty)
                # std::unordered_map look-up, empty view when absent  ->  association-list look-up (trusted mapping)
                return "(Fields.find s.fields %s)" % t, "bytes"
            if f == ("id", "from_dec_string") and len(e[2]) == 1:
                t, ty = self.ex(e[2][0])
                if ty != "bytes":
                    raise Unsupported("from_dec_string of a %s" % ty)
                return "(fromDecString %s)" % t, "int"
            if f[0] == "member":
                t, ty = self.ex(f[1])
                if ty == "bytes" and f[2] == "empty" and not e[2]:
                    return "%s.isEmpty" % t, "bool"
                if ty == "bytes" and f[2] == "find" and len(e[2]) == 1:
                    a, aty = self.ex(e[2][0])
                    if aty != "bytes":
                        raise Unsupported("string find of a %s" % aty)
                    return (a, t), "findpos"      # position of a in t, compared with npos below
            raise Unsupported("call %r in a header look-up" % (e,))
        if k == "cmp" and e[1] in ("==", "!="):
            a, aty = self.ex(e[2])
            b, bty = self.ex(e[3])
            if aty == "findpos" and bty == "npos":
                txt = "(containsSub %s %s)" % a
                return ("!" + txt if e[1] == "==" else txt), "bool"
            raise Unsupported("comparison in a header look-up")
        if k == "cond":
            c, cty = self.ex(e[1])
            a, aty = self.ex(e[2])
            b, bty = self.ex(e[3])
            if cty != "bool":
                raise Unsupported("condition of ?:")
            if aty == "nat" and bty == "int" and e[2][0] == "num":
                a, aty = "(%s : Int)" % a, "int"
            if aty != bty:
                raise Unsupported("branches of ?: differ in type")
            return "(if %s then %s else %s)" % (c, a, b), aty
        raise Unsupported("expression %r in a header look-up" % (e,))

    def term(self, stmts, rty):
        if not stmts:
            raise Unsupported("a header look-up can fall off its end")
        st, rest = stmts[0], stmts[1:]
        k = st[0]
        if k == "ldecl" and st[1] in ("auto", "std::string"):
            t, ty = self.ex(st[3])
            if ty != "bytes":
                raise Unsupported("local initialised with a %s" % ty)
            self.locals[st[2]] = "bytes"
            return "let %s : Bytes := %s; %s" % (st[2], t, self.term(rest, rty))
        if k == "if" and st[3] is None:
            body = st[2][1] if st[2][0] == "block" else [st[2]]
            if len(body) == 1 and body[0][0] == "return":
                c, cty = self.ex(st[1])
                v, vty = self.ex(body[0][1])
                if cty != "bool" or vty != rty:
                    raise Unsupported("early return in a header look-up")
                return "(if %s then %s else %s)" % (c, v, self.term(rest, rty))
        if k == "expr" and st[1][0] == "call" and st[1][1] == ("id", "std::transform"):
            a = st[1][2]
            # std::transform(x.begin(), x.end(), x.begin(), tolower): lower-case x in place
            if len(a) == 4 and a[3] == ("id", "tolower") and a[0][0] == "call" and a[0][1][0] == "member" and \
                    a[0][1][2] == "begin" and a[0][1][1][0] == "id" and a[0][1][1][1] in self.locals and \
                    a[1] == ("call", ("member", a[0][1][1], "end"), []) and a[2] == a[0]:
                x = a[0][1][1][1]
                return "let %s : Bytes := lowerBytes %s; %s" % (x, x, self.term(rest, rty))
            raise Unsupported("std::transform form")
        if k == "return":
            v, vty = self.ex(st[1])
            if vty != rty:
                raise Unsupported("return of a %s where a %s is expected" % (vty, rty))
            return v
        raise Unsupported("statement %r in a header look-up" % (k,))


LOOKUPS = [("content_length", "contentLength", "int", "Int", r"\bstd::ptrdiff_t\s+content_length\s*\(\s*\)\s*const\s*(?:noexcept)?"),
           ("is_chunked", "isChunked", "bool", "Bool", r"\bbool\s+is_chunked\s*\(\s*\)\s*const\s*(?:noexcept)?"),
           ("close_connection", "closeConnection", "bool", "Bool", r"\bbool\s+close_connection\s*\(\s*\)\s*const\s*(?:noexcept)?"),
           ("expect_continue", "expectContinue", "bool", "Bool", r"\bbool\s+expect_continue\s*\(\s*\)\s*const\s*(?:noexcept)?")]


def translate_lookups():
    text = text_of("http/headers.hpp")
    out = ["import ViaModel.Headers\n" + HEADER % ("message_headers::content_length / is_chunked / close_connection / expect_continue",
                                                    "http/headers.hpp", "MHA")]
    for cname, lname, rty, lty, sig in LOOKUPS:
        body = function_body(text, "message_headers", sig)
        body = body.replace("::tolower", "tolower")
        p = P(lex(body))
        st = p.stmt()
        if p.peek()[0] != "eof" or st[0] != "block":
            raise Unsupported("trailing tokens after message_headers::" + cname)
        term = GenLookup().term(st[1], rty)
        out.append("/-- `message_headers::%s` -/\ndef GenMHA.%s (s : MH) : %s :=\n  %s\n" % (cname, lname, lty, term))
    out.append("end Via\n")
    return "\n".join(out)


PREDICATES = [("rx_request", "RQ", "GenRQ", [("keep_alive", "keepAlive"), ("missing_host_header", "missingHost"),
                                            ("expect_continue", "expectContinue"), ("is_head", "isHead"), ("is_trace", "isTrace")]),
              ("rx_response", "RP", "GenRP", [("keep_alive", "keepAlive")])]


def translate_predicates():
    """the derived predicates of rx_request / rx_response that the connection layer consults"""
    specs = mk_specs()
    out = ["import ViaModel.ReqRx\nimport ViaModel.RespRx\n" + HEADER % (
        "the one-line predicates of rx_request / rx_response (keep_alive, missing_host_header, expect_continue, is_head, is_trace)",
        "http/request.hpp and http/response.hpp", "RQP")]
    for cls, S, ns, preds in PREDICATES:
        for cname, lname in preds:
            g = Gen3(specs, cls, "bool")
            p, t, ty = g.obj_method(cls, "s", cname, [])
            if p:
                raise Unsupported("side effect in %s::%s" % (cls, cname))
            out.append("/-- `%s::%s` -/\ndef %s.%s (s : %s) : Bool :=\n  %s\n" % (cls, cname, ns, lname, S, g.as_bool(t, ty)))
    out.append("end Via\n")
    return "\n".join(out)


JOBS = [("MHA", translate_lookups), ("RQP", translate_predicates), ("RQ", lambda: translate_message("rx_request")), ("RP", lambda: translate_message("rx_response")),
        ("RR", lambda: translate_receiver("request_receiver")), ("RS", lambda: translate_receiver("response_receiver"))]
