#!/usr/bin/env python3
"""Shared machinery for the via-httplib property checks (see DESIGN.md §3, §4).

Every check:  1. regenerates Generated.lean from /repo and builds the Lean project (proof status),
              2. audits axioms / sorry of the property's theorems,
              3. rebuilds the C++ harness from /repo's working tree (content-hash cache),
              4. runs generated operation scripts through the real code and through the model
                 driver, diffs them (correspondence) and evaluates the property oracle on the
                 implementation's output,
              5. prints the verdict lines and writes evidence/<id>.json.
"""
import fcntl
import hashlib
import json
import os
import re
import subprocess
import sys
import time

VERIF = os.path.dirname(os.path.dirname(os.path.abspath(__file__)))
REPO = os.environ.get("VERIF_REPO", "/repo")
CACHE = os.path.join(VERIF, ".cache")
LEAN_DIR = os.path.join(VERIF, "lean")
GUARD = "KENBA_VIA_HTTPLIB_VERIF"
AXIOM_WHITELIST = {"propext", "Classical.choice", "Quot.sound"}
NCPU = os.cpu_count() or 4

os.makedirs(CACHE, exist_ok=True)


# ----------------------------------------------------------------------------------------------
# deterministic PRNG: every random choice of every generator is drawn from one splitmix64 stream

class Rng:
    def __init__(self, seed):
        self.s = (int(seed) * 0x9E3779B97F4A7C15 + 0x1234567) & 0xFFFFFFFFFFFFFFFF

    def next(self):
        self.s = (self.s + 0x9E3779B97F4A7C15) & 0xFFFFFFFFFFFFFFFF
        z = self.s
        z = ((z ^ (z >> 30)) * 0xBF58476D1CE4E5B9) & 0xFFFFFFFFFFFFFFFF
        z = ((z ^ (z >> 27)) * 0x94D049BB133111EB) & 0xFFFFFFFFFFFFFFFF
        return z ^ (z >> 31)

    def below(self, n):
        return self.next() % n if n > 0 else 0

    def range(self, lo, hi):
        """inclusive"""
        return lo + self.below(hi - lo + 1)

    def choice(self, seq):
        return seq[self.below(len(seq))]

    def chance(self, num, den):
        return self.below(den) < num

    def bytes(self, n, alphabet=None):
        if alphabet is None:
            return bytes(self.below(256) for _ in range(n))
        return bytes(alphabet[self.below(len(alphabet))] for _ in range(n))

    def shuffle(self, lst):
        for i in range(len(lst) - 1, 0, -1):
            j = self.below(i + 1)
            lst[i], lst[j] = lst[j], lst[i]

    def fork(self, tag):
        h = hashlib.sha256(("%d/%s" % (self.s, tag)).encode()).digest()
        return Rng(int.from_bytes(h[:8], "big"))


def hx(b):
    if isinstance(b, str):
        b = b.encode("latin-1")
    return b.hex() if b else "-"


def unhx(s):
    return b"" if s == "-" else bytes.fromhex(s)


# ----------------------------------------------------------------------------------------------
# builds

class BuildError(Exception):
    pass


def _lock():
    f = open(os.path.join(CACHE, "lock"), "w")
    fcntl.flock(f, fcntl.LOCK_EX)
    return f


def repo_hash(extra_files=()):
    h = hashlib.sha256()
    root = os.path.join(REPO, "include")
    for d, dirs, files in sorted(os.walk(root)):
        dirs.sort()
        for fn in sorted(files):
            p = os.path.join(d, fn)
            h.update(p.encode())
            with open(p, "rb") as f:
                h.update(f.read())
    for p in extra_files:
        h.update(p.encode())
        with open(p, "rb") as f:
            h.update(f.read())
    return h.hexdigest()[:20]


HARNESS_FLAGS = {
    "rx_driver": ["-std=c++17", "-O1", "-g", "-fsanitize=address,undefined", "-fno-sanitize-recover=all",
                  "-D_GLIBCXX_DEBUG", "-D" + GUARD, "-fno-access-control"],
    "sim_driver": ["-std=c++17", "-O1", "-g", "-fsanitize=address,undefined", "-fno-sanitize-recover=all",
                   "-D_GLIBCXX_DEBUG", "-D" + GUARD, "-DASIO_STANDALONE", "-fno-access-control", "-pthread"],
    # the real adaptors on loopback (validation of the adaptor contract; thorough tiers and C12 / C20)
    "net_driver": ["-std=c++17", "-O1", "-g", "-D" + GUARD, "-DASIO_STANDALONE", "-pthread"],
    "net_driver_tls": ["-std=c++17", "-O1", "-g", "-D" + GUARD, "-DASIO_STANDALONE", "-DNET_TLS", "-pthread"],
    "net_driver_pool": ["-std=c++17", "-O1", "-g", "-D" + GUARD, "-DASIO_STANDALONE", "-DHTTP_THREAD_SAFE", "-pthread"],
    "net_driver_tsan": ["-std=c++17", "-O1", "-g", "-fsanitize=thread", "-D" + GUARD, "-DASIO_STANDALONE",
                        "-DHTTP_THREAD_SAFE", "-pthread"],
    "map_mt_driver": ["-std=c++17", "-O1", "-g", "-D" + GUARD, "-pthread"],
    "map_mt_driver_tsan": ["-std=c++17", "-O1", "-g", "-fsanitize=thread", "-DNET_TSAN", "-D" + GUARD, "-pthread"],
}
HARNESS_SRC = {"net_driver_tls": "net_driver", "net_driver_pool": "net_driver", "net_driver_tsan": "net_driver",
               "map_mt_driver_tsan": "map_mt_driver"}
HARNESS_LIBS = {"net_driver_tls": ["-lssl", "-lcrypto"]}
HARNESS_CXX = {"net_driver_tsan": "clang++-14", "map_mt_driver_tsan": "clang++-14"}


def build_harness(name, log):
    """Compile harness/<name>.cpp against the CURRENT /repo/include; cached by content hash."""
    src = os.path.join(VERIF, "harness", HARNESS_SRC.get(name, name) + ".cpp")
    extra = [src] + [os.path.join(VERIF, "harness", f) for f in sorted(os.listdir(os.path.join(VERIF, "harness")))
                     if f.endswith(".hpp")]
    flags = HARNESS_FLAGS[name]
    cxx = HARNESS_CXX.get(name, "g++")
    key = repo_hash(extra) + hashlib.sha256((cxx + " ".join(flags)).encode()).hexdigest()[:8]
    out = os.path.join(CACHE, "%s-%s" % (name, key))
    lk = _lock()
    try:
        if os.path.exists(out):
            os.utime(out, None)
            return out
        t0 = time.time()
        cmd = [cxx] + flags + ["-I" + os.path.join(REPO, "include"), "-I" + os.path.join(VERIF, "harness"),
                               src, "-o", out + ".tmp"] + HARNESS_LIBS.get(name, [])
        r = subprocess.run(cmd, capture_output=True, text=True)
        if r.returncode != 0:
            raise BuildError("harness %s does not compile against the current tree:\n%s" % (name, r.stderr[-3000:]))
        os.rename(out + ".tmp", out)
        log("built %s in %.1fs" % (name, time.time() - t0))
        # keep the cache small: keep the three most recently used binaries of this harness (the unchanged tree's binary
        # survives a run against a modified tree and back)
        olds = []
        for f in os.listdir(CACHE):
            if f.startswith(name + "-") and os.path.join(CACHE, f) != out and not f.endswith(".tmp") \
                    and re.match(r"^%s-[0-9a-f]{28}$" % re.escape(name), f):
                olds.append((os.path.getatime(os.path.join(CACHE, f)), f))
        for _, f in sorted(olds, reverse=True)[2:]:
            try:
                os.remove(os.path.join(CACHE, f))
            except OSError:
                pass
        return out
    finally:
        lk.close()


def lake_build(targets, log):
    """lake build of the given targets; returns (ok, output)."""
    lk = _lock()
    try:
        t0 = time.time()
        r = subprocess.run(["lake", "build"] + targets, cwd=LEAN_DIR, capture_output=True, text=True)
        log("lake build %s: rc=%d in %.1fs" % (" ".join(targets), r.returncode, time.time() - t0))
        return r.returncode == 0, r.stdout + r.stderr
    finally:
        lk.close()


def regenerate(log):
    """Run the extractor: rewrites lean/ViaModel/Generated.lean from /repo (fails closed)."""
    ext = os.path.join(VERIF, "tools", "extract.py")
    if not os.path.exists(ext):
        return True, ""
    lk = _lock()
    try:
        r = subprocess.run([sys.executable, ext], capture_output=True, text=True)
        # the translator of the character-level state machines (ViaGen/*.lean); a class it cannot translate leaves
        # no file, so only the proofs that import that translation stop building
        tr = os.path.join(VERIF, "tools", "cxx2lean.py")
        r2 = subprocess.run([sys.executable, tr], capture_output=True, text=True)
        if r2.returncode != 0:
            log("translator: " + (r2.stdout + r2.stderr)[-600:])
        return r.returncode == 0, r.stdout + r.stderr
    finally:
        lk.close()


FORBIDDEN = re.compile(r"\b(sorry|admit|native_decide|bv_decide|implemented_by|unsafe)\b|^\s*axiom\s|maxHeartbeats\s+0\b",
                       re.M)


def strip_comments(text):
    text = re.sub(r"/-.*?-/", "", text, flags=re.S)
    text = re.sub(r"--.*", "", text)
    return text


def import_closure(modules):
    """the project's own modules (ViaModel.*, ViaProofs.*) that the given modules import, transitively"""
    seen = []
    todo = list(modules)
    while todo:
        m = todo.pop()
        if m in seen or not (m.startswith("ViaModel") or m.startswith("ViaProofs") or m.startswith("ViaGen")):
            continue
        p = os.path.join(LEAN_DIR, m.replace(".", "/") + ".lean")
        if not os.path.exists(p):
            continue
        seen.append(m)
        for line in open(p):
            mm = re.match(r"\s*import\s+(\S+)", line)
            if mm:
                todo.append(mm.group(1))
    return seen


def audit_sources(modules=None):
    """grep the Lean sources the given modules depend on for forbidden constructs (outside comments)."""
    bad = []
    if modules is None:
        files = []
        for d in ("ViaModel", "ViaProofs", "ViaGen"):
            for root, _, fns in os.walk(os.path.join(LEAN_DIR, d)):
                files += [os.path.join(root, fn) for fn in fns if fn.endswith(".lean")]
    else:
        files = [os.path.join(LEAN_DIR, m.replace(".", "/") + ".lean") for m in import_closure(modules)]
    for p in sorted(files):
        m = FORBIDDEN.search(strip_comments(open(p).read()))
        if m:
            bad.append("%s: %s" % (p, m.group(0).strip()))
    return bad


def theorems_in(module):
    """names of the theorems declared in a ViaProofs module (namespace-qualified)."""
    p = os.path.join(LEAN_DIR, module.replace(".", "/") + ".lean")
    text = strip_comments(open(p).read())
    ns = []
    names = []
    for line in text.splitlines():
        m = re.match(r"\s*namespace\s+(\S+)", line)
        if m:
            ns.append(m.group(1))
            continue
        m = re.match(r"\s*end\s+(\S+)", line)
        if m and ns and ns[-1] == m.group(1):
            ns.pop()
            continue
        m = re.match(r"\s*(?:@\[[^\]]*\]\s*)?(?:private\s+|protected\s+)?theorem\s+(\S+)", line)
        if m:
            names.append(".".join(ns + [m.group(1)]))
    return names


def print_axioms(modules, names, log):
    """`#print axioms` for every name; returns {name: set(axioms)} (missing name => {'<error>'})."""
    if not names:
        return {}
    lines = ["import %s" % m for m in modules]
    for n in names:
        lines.append("#print axioms %s" % n)
    tmp = os.path.join(CACHE, "audit_%d.lean" % os.getpid())
    with open(tmp, "w") as f:
        f.write("\n".join(lines) + "\n")
    r = subprocess.run(["lake", "env", "lean", tmp], cwd=LEAN_DIR, capture_output=True, text=True)
    os.remove(tmp)
    out = r.stdout + r.stderr
    res = {}
    for n in names:
        m = re.search(r"'%s' depends on axioms: \[([^\]]*)\]" % re.escape(n), out)
        if m:
            res[n] = set(a.strip() for a in m.group(1).replace("\n", " ").split(",") if a.strip())
        elif re.search(r"'%s' does not depend on any axioms" % re.escape(n), out):
            res[n] = set()
        else:
            res[n] = {"<error>"}
    return res


# ----------------------------------------------------------------------------------------------
# running scripts

class Case:
    __slots__ = ("id", "lines", "meta")

    def __init__(self, cid, lines, meta=None):
        self.id = cid
        self.lines = lines
        self.meta = meta or {}

    def script(self):
        return "case %s\n%s\n" % (self.id, "\n".join(self.lines))


def write_script(cases, path):
    with open(path, "w") as f:
        for c in cases:
            f.write(c.script())


def split_output(text):
    """{case id: [lines]} from a driver's output"""
    res = {}
    cur = None
    for line in text.splitlines():
        if line.startswith("case "):
            cur = line[5:]
            res[cur] = []
        elif cur is not None:
            res[cur].append(line)
    return res


def run_driver(binary, script_path, env_extra=None, timeout=3600):
    env = dict(os.environ)
    env["ASAN_OPTIONS"] = "detect_leaks=0:abort_on_error=1:allocator_may_return_null=1"
    env["UBSAN_OPTIONS"] = "print_stacktrace=1"
    if env_extra:
        env.update(env_extra)
    r = subprocess.run([binary, script_path], capture_output=True, env=env, timeout=timeout)
    return r.stdout.decode("latin-1"), r.stderr.decode("latin-1")


def run_parallel(binary, cases, tag, jobs=None):
    """Run the cases through a driver in `jobs` parallel shards; returns {case id: lines}, stderr tail.
    Output goes to files (not pipes) so that all shards really run concurrently."""
    jobs = jobs or min(NCPU, max(1, len(cases) // 100))
    shards = [cases[i::jobs] for i in range(jobs)]
    procs = []
    env = dict(os.environ)
    env["ASAN_OPTIONS"] = "detect_leaks=0:abort_on_error=1:allocator_may_return_null=1"
    env["UBSAN_OPTIONS"] = "print_stacktrace=1"
    for i, sh in enumerate(shards):
        if not sh:
            continue
        p = os.path.join(CACHE, "script_%s_%d_%d.txt" % (tag, os.getpid(), i))
        write_script(sh, p)
        fo = open(p + ".out", "wb")
        fe = open(p + ".err", "wb")
        procs.append((p, fo, fe, subprocess.Popen([binary, p], stdout=fo, stderr=fe, env=env)))
    out = {}
    errs = []
    for p, fo, fe, pr in procs:
        pr.wait()
        fo.close()
        fe.close()
        with open(p + ".out", "rb") as f:
            out.update(split_output(f.read().decode("latin-1")))
        with open(p + ".err", "rb") as f:
            se = f.read()
        if se:
            errs.append(se.decode("latin-1")[-2000:])
        for q in (p, p + ".out", p + ".err"):
            try:
                os.remove(q)
            except OSError:
                pass
    return out, "\n".join(errs)


def model_binary():
    return os.path.join(LEAN_DIR, ".lake", "build", "bin", "via_model")


# ----------------------------------------------------------------------------------------------
# known findings, verdicts, evidence

def load_known_findings():
    p = os.path.join(VERIF, "known_findings.json")
    if not os.path.exists(p):
        return []
    return json.load(open(p)).get("findings", [])


def write_replay(prop, name, content):
    d = os.path.join(VERIF, "replays")
    os.makedirs(d, exist_ok=True)
    p = os.path.join(d, "%s_%s.txt" % (prop, name))
    with open(p, "w") as f:
        f.write(content)
    return p


def write_evidence(prop, tier, seed, level, coverage, assumptions, wall, violations):
    # runs against a deliberately modified tree (seeded changes) must not replace the evidence of the real tree
    evdir = os.environ.get("VERIF_EVIDENCE_DIR") or os.path.join(VERIF, "evidence")
    os.makedirs(evdir, exist_ok=True)
    ev = {
        "property_id": prop,
        "tier": tier,
        "seed": int(seed),
        "level": level,
        "coverage": coverage,
        "assumptions": assumptions,
        "wall_s": round(wall, 2),
        "violations": violations,
    }
    with open(os.path.join(evdir, prop + ".json"), "w") as f:
        json.dump(ev, f, indent=1, sort_keys=True)
        f.write("\n")
