#!/usr/bin/env python3
"""Mode 7 of the source-to-Lean translator: the constructor of `request_uri` (http/request_uri.hpp).

`GenUri.parse uri : Option (Bytes × Bytes × Bytes)` = (path_, query_, fragment_) after the constructor; `none` = an exception
(`std::out_of_range` from `erase` / `substr`) leaves it.  `size_t` is a natural number below 2^64 with wrap-around
(`std::string::npos` = 2^64 - 1, `++`, `-`), so the arithmetic on `npos` the constructor relies on is translated as it is.
Subset: `auto v(s.find('c'))`, `bool b(cmp)`, `if`/`else`, `s.erase(pos)`, `x = s.substr(pos[, n])`, `v++` / `++v` as an
argument, `a - b`, `||`.  Anything else raises Unsupported.  The body is emitted as a `do` block of the `Option` monad with
`let mut` variables, one line per C++ statement.
"""
import re

import cxx2lean_enc as E
from cxx2lean import Unsupported
import cxx2lean_rx as R

REL = "http/request_uri.hpp"


class Gen:
    def __init__(self, strings, ind):
        self.ty = dict((s, "bytes") for s in strings)
        self.lines = []

    def emit(self, ind, text):
        self.lines.append("  " * ind + text)

    def nat(self, e, ind):
        """term for a size_t expression; side effects (increments) are emitted around it"""
        k = e[0]
        if k == "id" and self.ty.get(e[1]) == "nat":
            return e[1]
        if k == "id" and e[1] == "std::string::npos":
            return "GenUri.npos"
        if k == "num":
            return str(e[1])
        if k == "sub":
            return "(GenUri.wsub %s %s)" % (self.nat(e[1], ind), self.nat(e[2], ind))
        if k == "postinc" and e[1][0] == "id" and self.ty.get(e[1][1]) == "nat":
            v = e[1][1]
            self.emit(ind, "let %s_old : Nat := %s" % (v, v))
            self.emit(ind, "%s := GenUri.winc %s" % (v, v))
            return v + "_old"
        if k == "preinc" and e[1][0] == "id" and self.ty.get(e[1][1]) == "nat":
            v = e[1][1]
            self.emit(ind, "%s := GenUri.winc %s" % (v, v))
            return v
        raise Unsupported("size_t expression %r" % (e,))

    def boolean(self, e):
        k = e[0]
        if k == "id" and self.ty.get(e[1]) == "bool":
            return e[1]
        if k == "or":
            return "(%s || %s)" % (self.boolean(e[1]), self.boolean(e[2]))
        if k == "and":
            return "(%s && %s)" % (self.boolean(e[1]), self.boolean(e[2]))
        if k == "cmp":
            a, b = self.nat(e[2], 0), self.nat(e[3], 0)
            op = {"!=": "!=", "==": "==", "<": "<"}.get(e[1])
            if not op:
                raise Unsupported("comparison %s" % e[1])
            return "decide (%s %s %s)" % (a, "≠" if op == "!=" else ("=" if op == "==" else "<"), b)
        raise Unsupported("condition %r" % (e,))

    def stmt(self, s, ind):
        if s[0] == "block":
            for x in s[1]:
                self.stmt(x, ind)
            return
        if s[0] == "ldecl" and s[1] == "auto" and s[3][0] == "call" and s[3][1][0] == "member" and s[3][1][2] == "find" \
                and len(s[3][2]) == 1 and s[3][2][0][0] == "char" and self.ty.get(s[3][1][1][1]) == "bytes":
            self.ty[s[2]] = "nat"
            self.emit(ind, "let mut %s : Nat := GenUri.sfind %d %s" % (s[2], s[3][2][0][1], s[3][1][1][1]))
            return
        if s[0] == "ldecl" and s[1] == "bool":
            t = self.boolean(s[3])
            self.ty[s[2]] = "bool"
            self.emit(ind, "let %s : Bool := %s" % (s[2], t))
            return
        if s[0] == "if":
            self.emit(ind, "if %s then" % self.boolean(s[1]))
            self.stmt(s[2], ind + 1)
            if s[3] is not None:
                self.emit(ind, "else")
                self.stmt(s[3], ind + 1)
            return
        if s[0] == "expr" and s[1][0] == "call" and s[1][1][0] == "member" and s[1][1][2] == "erase" and len(s[1][2]) == 1 \
                and s[1][1][1][0] == "id" and self.ty.get(s[1][1][1][1]) == "bytes":
            v = s[1][1][1][1]
            p = self.nat(s[1][2][0], ind)
            self.emit(ind, "if %s > %s.length then failure" % (p, v))
            self.emit(ind, "%s := %s.take %s" % (v, v, p))
            return
        if s[0] == "expr" and s[1][0] == "assign" and s[1][1] == "=" and s[1][2][0] == "id" and self.ty.get(s[1][2][1]) == "bytes":
            v, rhs = s[1][2][1], s[1][3]
            if rhs[0] == "call" and rhs[1][0] == "member" and rhs[1][2] == "substr" and rhs[1][1][0] == "id" \
                    and self.ty.get(rhs[1][1][1]) == "bytes" and len(rhs[2]) in (1, 2):
                src = rhs[1][1][1]
                p = self.nat(rhs[2][0], ind)
                n = self.nat(rhs[2][1], ind) if len(rhs[2]) == 2 else None
                self.emit(ind, "if %s > %s.length then failure" % (p, src))
                self.emit(ind, "%s := %s" % (v, ("(%s.drop %s).take %s" % (src, p, n)) if n else "%s.drop %s" % (src, p)))
                return
        raise Unsupported("statement %r" % (s,))


def translate_uri():
    t = R.strip_comments(R.text_of(REL))
    m = re.search(r"explicit\s+request_uri\s*\(\s*std::string_view\s+uri\s*\)\s*:\s*path_\s*\(\s*uri\s*\)\s*,\s*query_\s*\(\s*\)\s*,\s*fragment_\s*\(\s*\)\s*\{", t)
    if not m:
        raise Unsupported("request_uri constructor: signature / member initialisers not as expected")
    i = j = m.end() - 1
    d = 0
    while j < len(t):
        if t[j] == "{":
            d += 1
        elif t[j] == "}":
            d -= 1
            if d == 0:
                break
        j += 1
    g = Gen(["uri", "path_", "query_", "fragment_"], 1)
    for s in E.parse_body(t[i:j + 1]):
        g.stmt(s, 1)
    # path() / query() / fragment() return the members
    for acc in ("path", "query", "fragment"):
        b = E.parse_body(R.strip_comments(E.fn_body(REL, r"\bstd::string\s+const&\s+%s\s*\(\s*\)\s*const" % acc, "request_uri")))
        if b != [("return", ("id", acc + "_"))]:
            raise Unsupported("accessor %s() %r" % (acc, b))
    out = ["import ViaModel.Router\n" + R.HEADER % ("request_uri::request_uri", "http/request_uri.hpp", "URI")]
    out.append("def GenUri.npos : Nat := 2 ^ 64 - 1\n"
               "/-- `std::string::find(char)` as a `size_t` -/\n"
               "def GenUri.sfind (c : Byte) (s : Bytes) : Nat := (findByte c s).getD GenUri.npos\n"
               "def GenUri.winc (a : Nat) : Nat := (a + 1) % 2 ^ 64\n"
               "def GenUri.wsub (a b : Nat) : Nat := (a + 2 ^ 64 - b) % 2 ^ 64\n")
    out.append("def GenUri.parse (uri : Bytes) : Option (Bytes × Bytes × Bytes) := do\n"
               "  let mut path_ : Bytes := uri\n  let mut query_ : Bytes := []\n  let mut fragment_ : Bytes := []\n"
               + "\n".join(g.lines) + "\n  return (path_, query_, fragment_)\n")
    out.append("end Via\n")
    return "\n".join(out)


if __name__ == "__main__":
    print(translate_uri())
