#!/bin/sh
# seed_intake.sh <worktree> <seed id> <property> [also...] — adapt a sub-agent's _seed/ deliverables to seed_test.py,
# confirm and store the seed, run the checks with the change applied to /repo (official flow), remove the worktree.
set -e
wt="$1"; sid="$2"; prop="$3"; shift 3
cp "$wt/_seed/patch.diff" "$wt/mutation.patch"
cp "$wt/_seed/demo.cpp" "$wt/demo.cpp"
[ -f "$wt/_seed/NOTES.md" ] && cp "$wt/_seed/NOTES.md" "$wt/NOTES.md"
cd "$(dirname "$0")/.."
SEED_APPLY_TO_REPO=1 python3 tools/seed_test.py "$wt" "$sid" "$prop" quick "$@"
git -C /repo status --short | grep -v '^??' && { echo "REPO DIRTY"; exit 3; } || true
